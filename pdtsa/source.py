"""Program model, part 1: parse the working tree of pydiverse.transform.

Nothing here imports or executes the library.  Every run re-parses the files
below ``<repo>/src/pydiverse/transform`` with the standard-library ``ast``.
"""

from __future__ import annotations

import ast
import copy
import hashlib
import os
from pathlib import Path

PKG = "pydiverse.transform"
INTERNAL = PKG + "._internal"


class AnalysisError(Exception):
    """The checker cannot do its job (anchor vanished, unknown shape, floor)."""


def _header_exprs(st):
    """the expressions of a statement that are evaluated exactly once when control reaches it"""
    if isinstance(st, (ast.Return, ast.Expr)):
        return [st.value] if st.value is not None else []
    if isinstance(st, ast.Assign):
        return [st.value] + list(st.targets)
    if isinstance(st, (ast.AugAssign, ast.AnnAssign)):
        return [x for x in (st.value, st.target) if x is not None]
    if isinstance(st, ast.If):
        return [st.test]
    if isinstance(st, ast.For):
        return [st.iter]
    if isinstance(st, ast.With):
        return [it.context_expr for it in st.items]
    if isinstance(st, ast.Raise):
        return [x for x in (st.exc, st.cause) if x is not None]
    if isinstance(st, ast.Assert):
        return [x for x in (st.test, st.msg) if x is not None]
    return []


def _once_positions(expr, name):
    """Load occurrences of `name` in expr that are evaluated exactly once (not under a lambda / comprehension
    element / conditional arm)"""
    out = []

    def rec(n, once):
        if isinstance(n, ast.Name) and n.id == name and isinstance(n.ctx, ast.Load):
            out.append((n, once))
            return
        if isinstance(n, ast.Lambda):
            rec(n.body, False)
            return
        if isinstance(n, (ast.ListComp, ast.SetComp, ast.GeneratorExp, ast.DictComp)):
            for i, g in enumerate(n.generators):
                rec(g.iter, once and i == 0)
                for c in g.ifs:
                    rec(c, False)
            for f in ("elt", "key", "value"):
                if hasattr(n, f):
                    rec(getattr(n, f), False)
            return
        if isinstance(n, ast.IfExp):
            rec(n.test, once)
            rec(n.body, False)
            rec(n.orelse, False)
            return
        if isinstance(n, ast.BoolOp):
            for i, v in enumerate(n.values):
                rec(v, once and i == 0)
            return
        for c in ast.iter_child_nodes(n):
            rec(c, once)

    rec(expr, True)
    return out


def normalise(tree):
    """Normal form the analyses run on (layout, comments and quoting are already gone after parsing):
    a local that is assigned once, by a plain `t = E`, and read once, unconditionally, by the statement that
    immediately follows, is replaced by E (`t = f(x); return t` == `return f(x)`).  Introducing or removing such a
    temporary does not change behaviour, so it must not change a verdict.  Returns the number of temporaries removed."""
    removed = 0
    # N3: two-armed conditionals are written with a positive test: `if not a: X else: Y` == `if a: Y else: X`
    _NEG = {ast.NotEq: ast.Eq, ast.IsNot: ast.Is, ast.NotIn: ast.In}

    def positive(t):
        if isinstance(t, ast.UnaryOp) and isinstance(t.op, ast.Not):
            return t.operand
        if isinstance(t, ast.Compare) and len(t.ops) == 1 and type(t.ops[0]) in _NEG:
            return ast.copy_location(ast.Compare(left=t.left, ops=[_NEG[type(t.ops[0])]()], comparators=t.comparators), t)
        return None

    for n in ast.walk(tree):
        if isinstance(n, ast.If) and n.orelse:
            p = positive(n.test)
            if p is not None:
                n.test, n.body, n.orelse = p, n.orelse, n.body
                removed += 1
        elif isinstance(n, ast.IfExp):
            p = positive(n.test)
            if p is not None:
                n.test, n.body, n.orelse = p, n.orelse, n.body
                removed += 1
    for fn in [n for n in ast.walk(tree) if isinstance(n, (ast.FunctionDef, ast.AsyncFunctionDef))]:
        a = fn.args
        params = {x.arg for x in a.posonlyargs + a.args + a.kwonlyargs} | ({a.vararg.arg} if a.vararg else set()) | ({a.kwarg.arg} if a.kwarg else set())
        for _ in range(6):
            stores: dict[str, int] = {}
            loads: dict[str, int] = {}
            for n in ast.walk(fn):
                if isinstance(n, ast.Name):
                    d = stores if isinstance(n.ctx, (ast.Store, ast.Del)) else loads
                    d[n.id] = d.get(n.id, 0) + 1
                elif isinstance(n, ast.ExceptHandler) and n.name:
                    stores[n.name] = stores.get(n.name, 0) + 2
                elif isinstance(n, (ast.Global, ast.Nonlocal)):
                    for nm in n.names:
                        stores[nm] = stores.get(nm, 0) + 2
            changed = False
            for blk_owner in ast.walk(fn):
                for field in ("body", "orelse", "finalbody"):
                    blk = getattr(blk_owner, field, None)
                    if not (isinstance(blk, list) and blk and isinstance(blk[0], ast.stmt)):
                        continue
                    i = 0
                    while i + 1 < len(blk):
                        st, nxt = blk[i], blk[i + 1]
                        # `t = E; return t`: the value is only ever seen by that return, whatever else `t` is used for
                        if (
                            isinstance(st, ast.Assign)
                            and len(st.targets) == 1
                            and isinstance(st.targets[0], ast.Name)
                            and isinstance(nxt, ast.Return)
                            and isinstance(nxt.value, ast.Name)
                            and nxt.value.id == st.targets[0].id
                            and not isinstance(st.value, (ast.Yield, ast.YieldFrom, ast.Await))
                        ):
                            nxt.value = st.value
                            del blk[i]
                            removed += 1
                            changed = True
                            continue
                        if (
                            isinstance(st, ast.Assign)
                            and len(st.targets) == 1
                            and isinstance(st.targets[0], ast.Name)
                            and st.targets[0].id not in params
                            and stores.get(st.targets[0].id) == 1
                            and loads.get(st.targets[0].id) == 1
                            and not isinstance(st.value, (ast.Lambda, ast.Yield, ast.YieldFrom, ast.Await, ast.NamedExpr))
                        ):
                            nm = st.targets[0].id
                            pos = [p for h in _header_exprs(nxt) for p in _once_positions(h, nm)]
                            if len(pos) == 1 and pos[0][1]:
                                use = pos[0][0]
                                # replace the Name node by the value expression in its parent
                                for par in ast.walk(nxt):
                                    for f, v in ast.iter_fields(par):
                                        if v is use:
                                            setattr(par, f, st.value)
                                        elif isinstance(v, list) and any(x is use for x in v):
                                            setattr(par, f, [st.value if x is use else x for x in v])
                                del blk[i]
                                removed += 1
                                changed = True
                                stores[nm] = 0
                                continue
                        i += 1
            if not changed:
                break
    return removed


def _locals_of(fn) -> set[str]:
    out = set()
    for n in ast.walk(fn):
        if isinstance(n, ast.Name) and isinstance(n.ctx, (ast.Store, ast.Del)):
            out.add(n.id)
        elif isinstance(n, ast.ExceptHandler) and n.name:
            out.add(n.name)
    a = fn.args
    out -= {x.arg for x in a.posonlyargs + a.args + a.kwonlyargs} | ({a.vararg.arg} if a.vararg else set()) | ({a.kwarg.arg} if a.kwarg else set())
    return out


def alpha_unify(ref_fn, fn):
    """mapping {name in fn: name in ref_fn} if fn equals ref_fn up to a consistent (bijective) renaming of local
    variables, else None"""
    lr, lf = _locals_of(ref_fn), _locals_of(fn)
    fwd: dict[str, str] = {}
    bwd: dict[str, str] = {}

    def name(a, b):
        if a == b and a not in lr and b not in lf:
            return True
        if (a in lr) != (b in lf):
            return False
        if a not in lr:
            return a == b
        if fwd.get(b, a) != a or bwd.get(a, b) != b:
            return False
        fwd[b] = a
        bwd[a] = b
        return True

    def rec(x, y):
        if type(x) is not type(y):
            return False
        if isinstance(x, ast.Name):
            return name(x.id, y.id)
        if isinstance(x, ast.ExceptHandler):
            if (x.name is None) != (y.name is None) or (x.name is not None and not name(x.name, y.name)):
                return False
        for (f, vx), (_, vy) in zip(ast.iter_fields(x), ast.iter_fields(y)):
            if isinstance(x, ast.ExceptHandler) and f == "name":
                continue
            if f in ("lineno", "col_offset", "end_lineno", "end_col_offset", "ctx", "type_comment"):
                continue
            if isinstance(vx, list):
                if not isinstance(vy, list) or len(vx) != len(vy):
                    return False
                for ex, ey in zip(vx, vy):
                    if isinstance(ex, ast.AST):
                        if not rec(ex, ey):
                            return False
                    elif ex != ey:
                        return False
            elif isinstance(vx, ast.AST):
                if not isinstance(vy, ast.AST) or not rec(vx, vy):
                    return False
            elif vx != vy:
                return False
        return True

    if not rec(ref_fn, fn):
        return None
    return {k: v for k, v in fwd.items() if k != v}


def apply_rename(fn, mapping):
    for n in ast.walk(fn):
        if isinstance(n, ast.Name) and n.id in mapping:
            n.id = mapping[n.id]
        elif isinstance(n, ast.ExceptHandler) and n.name in mapping:
            n.name = mapping[n.name]


REFERENCE_DIR = Path(__file__).resolve().parent.parent / "reference"


def _functions_by_qualname(tree):
    out = {}

    def visit(node, prefix):
        for child in ast.iter_child_nodes(node):
            if isinstance(child, (ast.FunctionDef, ast.AsyncFunctionDef, ast.ClassDef)):
                q = f"{prefix}{child.name}"
                if not isinstance(child, ast.ClassDef):
                    out[q] = child
                visit(child, q + ".")
            else:
                visit(child, prefix)

    visit(tree, "")
    return out


def canonical_local_names(tree, rel: str) -> int:
    """The rules name some anchors by the spelling of local variables (`query`, `res`, `cols` ...).  A function of the
    analysed tree that equals its counterpart in the reference snapshot (/verif/reference, the tree the rule instances
    were confirmed on) up to a consistent renaming of locals is renamed back to the reference spelling, so that a pure
    rename cannot change any verdict.  Functions that differ in any other way are left as they are."""
    ref = REFERENCE_DIR / rel
    if not ref.exists():
        return 0
    try:
        rtree = ast.parse(ref.read_text())
    except SyntaxError:
        return 0
    normalise(rtree)
    rf, ff = _functions_by_qualname(rtree), _functions_by_qualname(tree)
    n = 0
    # innermost first, so that an enclosing function is compared after its nested functions were renamed
    for q in sorted(ff, key=lambda s: -s.count(".")):
        if q in rf:
            m = alpha_unify(rf[q], ff[q])
            if m:
                apply_rename(ff[q], m)
                n += 1
    return n


class Module:
    def __init__(self, name: str, path: Path, source: str):
        self.name = name
        self.path = path
        self.source = source
        self.tree = ast.parse(source, filename=str(path))
        self.n_normalised = normalise(self.tree) if os.environ.get("PDTSA_NORMALISE", "1") != "0" else 0
        self.n_alpha = 0
        if os.environ.get("PDTSA_NORMALISE", "1") != "0":
            try:
                idx = path.parts.index("src")
                self.n_alpha = canonical_local_names(self.tree, str(Path(*path.parts[idx:])))
            except ValueError:
                pass
        self.rel = None
        for parent in ast.walk(self.tree):
            for child in ast.iter_child_nodes(parent):
                child._parent = parent  # type: ignore[attr-defined]
        self.tree._parent = None  # type: ignore[attr-defined]
        self._index_defs()
        self._index_imports()

    # -- definitions ---------------------------------------------------------
    def _index_defs(self):
        self.defs: dict[str, ast.AST] = {}
        self.all_funcs: list[ast.AST] = []

        def visit(node, prefix):
            for child in ast.iter_child_nodes(node):
                if isinstance(child, (ast.FunctionDef, ast.AsyncFunctionDef, ast.ClassDef)):
                    q = f"{prefix}{child.name}"
                    child._qualname = q  # type: ignore[attr-defined]
                    child._module = self  # type: ignore[attr-defined]
                    # the last definition of a name wins at run time; keep all, too
                    self.defs.setdefault(q, child)
                    self.defs[q] = child
                    if not isinstance(child, ast.ClassDef):
                        self.all_funcs.append(child)
                    visit(child, q + ".")
                elif isinstance(child, ast.Lambda):
                    child._qualname = f"{prefix}<lambda@{child.lineno}>"  # type: ignore[attr-defined]
                    child._module = self  # type: ignore[attr-defined]
                    self.all_funcs.append(child)
                    visit(child, prefix)
                else:
                    visit(child, prefix)

        visit(self.tree, "")

    def _index_imports(self):
        """name -> dotted target (module or module.attr)."""
        self.imports: dict[str, str] = {}
        pkg_parts = self.name.split(".")
        is_pkg = self.path.name == "__init__.py"
        for node in ast.walk(self.tree):
            if isinstance(node, ast.Import):
                for a in node.names:
                    if a.asname:
                        self.imports[a.asname] = a.name
                    else:
                        self.imports[a.name.split(".")[0]] = a.name.split(".")[0]
            elif isinstance(node, ast.ImportFrom):
                if node.level:
                    base = pkg_parts if is_pkg else pkg_parts[:-1]
                    base = base[: len(base) - (node.level - 1)]
                    mod = ".".join(base + ([node.module] if node.module else []))
                else:
                    mod = node.module or ""
                for a in node.names:
                    if a.name == "*":
                        self.imports.setdefault("*", "")
                        self.imports["*"] += ("," if self.imports["*"] else "") + mod
                    else:
                        self.imports[a.asname or a.name] = f"{mod}.{a.name}"

    def func(self, qualname: str):
        node = self.defs.get(qualname)
        if node is None or isinstance(node, ast.ClassDef):
            raise AnalysisError(f"anchor function {self.name}:{qualname} not found")
        return node

    def cls(self, qualname: str) -> ast.ClassDef:
        node = self.defs.get(qualname)
        if not isinstance(node, ast.ClassDef):
            raise AnalysisError(f"anchor class {self.name}:{qualname} not found")
        return node

    def has(self, qualname: str) -> bool:
        return qualname in self.defs

    def toplevel_assign(self, name: str):
        """value expression of the last module-level ``name = ...``"""
        found = None
        for st in self.tree.body:
            if isinstance(st, ast.Assign):
                for t in st.targets:
                    if isinstance(t, ast.Name) and t.id == name:
                        found = st.value
            elif isinstance(st, ast.AnnAssign) and isinstance(st.target, ast.Name) and st.target.id == name:
                if st.value is not None:
                    found = st.value
        return found


class Repo:
    def __init__(self, root: str | os.PathLike = "/repo"):
        self.root = Path(root)
        self.src = self.root / "src"
        self.pkg_dir = self.src / "pydiverse" / "transform"
        if not self.pkg_dir.is_dir():
            raise AnalysisError(f"{self.pkg_dir} not found")
        self.modules: dict[str, Module] = {}
        for path in sorted(self.pkg_dir.rglob("*.py")):
            rel = path.relative_to(self.src).with_suffix("")
            parts = list(rel.parts)
            if parts[-1] == "__init__":
                parts = parts[:-1]
            name = ".".join(parts)
            try:
                m = Module(name, path, path.read_text())
            except SyntaxError as e:
                raise AnalysisError(f"cannot parse {path}: {e}") from e
            m.rel = str(path.relative_to(self.root))
            self.modules[name] = m

    def mod(self, short: str) -> Module:
        """``mod('pipe.verbs')`` -> module pydiverse.transform._internal.pipe.verbs"""
        for cand in (short, f"{INTERNAL}.{short}", f"{PKG}.{short}"):
            if cand in self.modules:
                return self.modules[cand]
        raise AnalysisError(f"anchor module {short} not found")

    def digest(self) -> str:
        h = hashlib.sha256()
        for name in sorted(self.modules):
            h.update(name.encode())
            h.update(self.modules[name].source.encode())
        return h.hexdigest()[:16]

    def n_functions(self) -> int:
        return sum(len(m.all_funcs) for m in self.modules.values())


# ---------------------------------------------------------------------------
# helpers on nodes


def parent(node):
    return getattr(node, "_parent", None)


def enclosing_function(node):
    p = parent(node)
    while p is not None and not isinstance(p, (ast.FunctionDef, ast.AsyncFunctionDef, ast.Lambda)):
        p = parent(p)
    return p


def enclosing_def_qualname(node) -> str:
    p = node
    while p is not None:
        if isinstance(p, (ast.FunctionDef, ast.AsyncFunctionDef, ast.ClassDef)) and p is not node:
            return getattr(p, "_qualname", p.name)
        p = parent(p)
    return "<module>"


def qual_of(node) -> str:
    if hasattr(node, "_qualname"):
        return node._qualname
    return enclosing_def_qualname(node)


def norm(node, rename: dict[str, str] | None = None) -> str:
    """normalised text of a construct: ``ast.unparse`` with optional renaming of
    names; insensitive to layout, comments and line numbers."""
    if isinstance(node, str):
        return node
    if rename:
        node = copy.deepcopy(node)
        for n in ast.walk(node):
            if isinstance(n, ast.Name) and n.id in rename:
                n.id = rename[n.id]
            elif isinstance(n, ast.arg) and n.arg in rename:
                n.arg = rename[n.arg]
    try:
        s = ast.unparse(node)
    except Exception:  # pragma: no cover
        s = ast.dump(node)
    return " ".join(s.split())


def short(node, n=160) -> str:
    s = norm(node)
    return s if len(s) <= n else s[: n - 3] + "..."


def dotted(node) -> str | None:
    """``a.b.c`` for Name/Attribute chains, else None"""
    parts = []
    while isinstance(node, ast.Attribute):
        parts.append(node.attr)
        node = node.value
    if isinstance(node, ast.Name):
        parts.append(node.id)
        return ".".join(reversed(parts))
    return None


def call_name(call: ast.Call) -> str | None:
    return dotted(call.func)


def walk_no_nested(node, *, include_lambdas=True):
    """walk the body of a function without descending into nested defs/classes"""
    stack = list(ast.iter_child_nodes(node))
    while stack:
        n = stack.pop()
        yield n
        if isinstance(n, (ast.FunctionDef, ast.AsyncFunctionDef, ast.ClassDef)):
            continue
        if isinstance(n, ast.Lambda) and not include_lambdas:
            continue
        stack.extend(ast.iter_child_nodes(n))


def calls_in(node, *, nested=True):
    it = ast.walk(node) if nested else walk_no_nested(node)
    for n in it:
        if isinstance(n, ast.Call):
            yield n


def kwarg(call: ast.Call, name: str):
    for k in call.keywords:
        if k.arg == name:
            return k.value
    return None


def is_const(node, value=...):
    if not isinstance(node, ast.Constant):
        return False
    return value is ... or (node.value is value if isinstance(value, (bool, type(None))) else node.value == value)


def loc(module: Module, node) -> str:
    return f"{module.rel}:{getattr(node, 'lineno', 0)}"


def names_in(node) -> set[str]:
    return {n.id for n in ast.walk(node) if isinstance(n, ast.Name)}


def attrs_in(node) -> set[str]:
    return {n.attr for n in ast.walk(node) if isinstance(n, ast.Attribute)}


def mentions(node) -> set[str]:
    """all identifiers, attribute names and string constants occurring in node"""
    out = set()
    for n in ast.walk(node):
        if isinstance(n, ast.Name):
            out.add(n.id)
        elif isinstance(n, ast.Attribute):
            out.add(n.attr)
        elif isinstance(n, ast.Constant) and isinstance(n.value, str):
            out.add(n.value)
    return out


# ---------------------------------------------------------------------------
# canonical text: insensitive to introduced locals and to the names of loop variables


class _Renamer(ast.NodeTransformer):
    def __init__(self, mapping):
        self.mapping = mapping

    def visit_Name(self, node):
        if node.id in self.mapping:
            return ast.copy_location(copy.deepcopy(self.mapping[node.id]), node) if not isinstance(self.mapping[node.id], str) else ast.copy_location(
                ast.Name(id=self.mapping[node.id], ctx=node.ctx), node
            )
        return node


def _bound_names(target):
    return [n.id for n in ast.walk(target) if isinstance(n, ast.Name)]


def canon(func):
    """deep copy of a function (or any node) in canonical form:
    (1) a local name that is assigned exactly once by a plain `x = <expr>` statement, never reassigned, not a
        parameter and not used as a call target of a mutation, is replaced by its defining expression (so
        `tmp = a.b; use(tmp)` reads `use(a.b)`); the defining statement is dropped;
    (2) loop variables of comprehensions are renamed `$0, $1, ..` by position, those of `for` statements `$f0, ..`.
    Used only for *recognising* constructs; verdicts are still about the original source."""
    node = copy.deepcopy(func)
    # docstrings carry no behaviour
    for n in ast.walk(node):
        body = getattr(n, "body", None)
        if isinstance(body, list) and body and isinstance(body[0], ast.Expr) and isinstance(body[0].value, ast.Constant) and isinstance(body[0].value.value, str):
            if len(body) > 1:
                n.body = body[1:]
    params = set()
    if isinstance(node, (ast.FunctionDef, ast.AsyncFunctionDef)):
        a = node.args
        params = {x.arg for x in a.posonlyargs + a.args + a.kwonlyargs} | ({a.vararg.arg} if a.vararg else set()) | ({a.kwarg.arg} if a.kwarg else set())
    # --- (1) inline single-assignment locals, repeatedly (chains)
    for _ in range(4):
        counts: dict[str, int] = {}
        defs: dict[str, ast.Assign] = {}
        for n in ast.walk(node):
            if isinstance(n, ast.Assign):
                for t in n.targets:
                    for nm in _bound_names(t) if isinstance(t, (ast.Tuple, ast.List, ast.Name)) else []:
                        counts[nm] = counts.get(nm, 0) + 1
                if len(n.targets) == 1 and isinstance(n.targets[0], ast.Name):
                    defs[n.targets[0].id] = n
            elif isinstance(n, (ast.AugAssign, ast.AnnAssign)):
                for nm in _bound_names(n.target):
                    counts[nm] = counts.get(nm, 0) + 2
            elif isinstance(n, (ast.For, ast.comprehension)):
                for nm in _bound_names(n.target):
                    counts[nm] = counts.get(nm, 0) + 2
            elif isinstance(n, ast.NamedExpr):
                for nm in _bound_names(n.target):
                    counts[nm] = counts.get(nm, 0) + 2
            elif isinstance(n, (ast.With,)):
                for it in n.items:
                    if it.optional_vars is not None:
                        for nm in _bound_names(it.optional_vars):
                            counts[nm] = counts.get(nm, 0) + 2
            elif isinstance(n, ast.ExceptHandler) and n.name:
                counts[n.name] = counts.get(n.name, 0) + 2
        inl = {}
        for nm, st in defs.items():
            if counts.get(nm) != 1 or nm in params:
                continue
            # do not inline values whose identity matters (fresh containers that are mutated later) or big displays
            v = st.value
            mutated = any(
                isinstance(c, ast.Call) and isinstance(c.func, ast.Attribute) and isinstance(c.func.value, ast.Name) and c.func.value.id == nm
                and c.func.attr in ("append", "extend", "update", "add", "clear", "pop", "insert", "remove")
                for c in ast.walk(node)
            ) or any(
                isinstance(s, (ast.Assign, ast.AugAssign)) and any(
                    isinstance(t, (ast.Attribute, ast.Subscript)) and isinstance(t.value, ast.Name) and t.value.id == nm
                    for t in (s.targets if isinstance(s, ast.Assign) else [s.target])
                )
                for s in ast.walk(node)
            )
            if mutated or isinstance(v, (ast.Lambda, ast.Yield, ast.YieldFrom, ast.Await)):
                continue
            # the definition must not mention itself
            if nm in {x.id for x in ast.walk(v) if isinstance(x, ast.Name)}:
                continue
            inl[nm] = v
        if not inl:
            break
        # drop the defining statements and substitute
        class _Drop(ast.NodeTransformer):
            def visit_Assign(self, n):
                if len(n.targets) == 1 and isinstance(n.targets[0], ast.Name) and n.targets[0].id in inl and n is defs.get(n.targets[0].id):
                    return None
                return self.generic_visit(n)

        node = _Drop().visit(node)
        node = _Renamer(inl).visit(node)
        ast.fix_missing_locations(node)
    # --- (2) canonical loop variable names
    counter = [0]

    def rename_comp(n):
        for child in ast.iter_child_nodes(n):
            rename_comp(child)
        if isinstance(n, (ast.ListComp, ast.SetComp, ast.GeneratorExp, ast.DictComp)):
            mapping = {}
            for g in n.generators:
                for nm in _bound_names(g.target):
                    if nm not in mapping:
                        mapping[nm] = f"${len(mapping)}"
            r = _Renamer(mapping)
            for field in ("elt", "key", "value"):
                if hasattr(n, field):
                    setattr(n, field, r.visit(getattr(n, field)))
            for g in n.generators:
                g.target = r.visit(g.target)
                g.iter = r.visit(g.iter)
                g.ifs = [r.visit(c) for c in g.ifs]

    rename_comp(node)
    return node


def ctext(func) -> str:
    return norm(canon(func))
