"""Program model, part 1: parse the working tree of pydiverse.transform.

Nothing here imports or executes the library.  Every run re-parses the files
below ``<repo>/src/pydiverse/transform`` with the standard-library ``ast``.
"""

from __future__ import annotations

import ast
import copy
import hashlib
import os
from pathlib import Path

PKG = "pydiverse.transform"
INTERNAL = PKG + "._internal"


class AnalysisError(Exception):
    """The checker cannot do its job (anchor vanished, unknown shape, floor)."""


from .normal import normalise as _normalise_tree  # noqa: E402


def _locals_of(fn) -> set[str]:
    out = set()
    for n in ast.walk(fn):
        if isinstance(n, ast.Name) and isinstance(n.ctx, (ast.Store, ast.Del)):
            out.add(n.id)
        elif isinstance(n, ast.ExceptHandler) and n.name:
            out.add(n.name)
    a = fn.args
    out -= {x.arg for x in a.posonlyargs + a.args + a.kwonlyargs} | ({a.vararg.arg} if a.vararg else set()) | ({a.kwarg.arg} if a.kwarg else set())
    return out


def alpha_unify(ref_fn, fn, lr=None, lf=None):
    """mapping {name in fn: name in ref_fn} if fn equals ref_fn up to a consistent (bijective) renaming of local
    variables, else None"""
    if lr is None:
        lr, lf = _locals_of(ref_fn), _locals_of(fn)
    fwd: dict[str, str] = {}
    bwd: dict[str, str] = {}

    def name(a, b):
        if a == b and a not in lr and b not in lf:
            return True
        if (a in lr) != (b in lf):
            return False
        if a not in lr:
            return a == b
        if fwd.get(b, a) != a or bwd.get(a, b) != b:
            return False
        fwd[b] = a
        bwd[a] = b
        return True

    def rec(x, y):
        if type(x) is not type(y):
            return False
        if isinstance(x, ast.Name):
            return name(x.id, y.id)
        if isinstance(x, ast.ExceptHandler):
            if (x.name is None) != (y.name is None) or (x.name is not None and not name(x.name, y.name)):
                return False
        for (f, vx), (_, vy) in zip(ast.iter_fields(x), ast.iter_fields(y)):
            if isinstance(x, ast.ExceptHandler) and f == "name":
                continue
            if f in ("lineno", "col_offset", "end_lineno", "end_col_offset", "ctx", "type_comment"):
                continue
            if isinstance(vx, list):
                if not isinstance(vy, list) or len(vx) != len(vy):
                    return False
                for ex, ey in zip(vx, vy):
                    if isinstance(ex, ast.AST):
                        if not rec(ex, ey):
                            return False
                    elif ex != ey:
                        return False
            elif isinstance(vx, ast.AST):
                if not isinstance(vy, ast.AST) or not rec(vx, vy):
                    return False
            elif vx != vy:
                return False
        return True

    if not rec(ref_fn, fn):
        return None
    return {k: v for k, v in fwd.items() if k != v}


def apply_rename(fn, mapping):
    for n in ast.walk(fn):
        if isinstance(n, ast.Name) and n.id in mapping:
            n.id = mapping[n.id]
        elif isinstance(n, ast.ExceptHandler) and n.name in mapping:
            n.name = mapping[n.name]


REFERENCE_DIR = Path(os.environ.get("PDTSA_REFERENCE_DIR") or Path(__file__).resolve().parent.parent / "reference")


def _functions_by_qualname(tree):
    out = {}

    def visit(node, prefix):
        for child in ast.iter_child_nodes(node):
            if isinstance(child, (ast.FunctionDef, ast.AsyncFunctionDef, ast.ClassDef)):
                q = f"{prefix}{child.name}"
                if not isinstance(child, ast.ClassDef):
                    out[q] = child
                visit(child, q + ".")
            else:
                visit(child, prefix)

    visit(tree, "")
    return out


_ref_cache: dict = {}


def _reference_tree(rel: str):
    if rel in _ref_cache:
        return _ref_cache[rel]
    ref = REFERENCE_DIR / rel
    rtree = None
    if ref.exists():
        try:
            rtree = ast.parse(ref.read_text())
            _normalise_tree(rtree)
        except SyntaxError:
            rtree = None
    _ref_cache[rel] = rtree
    return rtree


def new_private_helpers(tree, rel: str) -> frozenset:
    """qualified names of private functions / methods of this module that the reference snapshot does not have"""
    rtree = _reference_tree(rel)
    if rtree is None:
        return frozenset()
    have = set(_functions_by_qualname(rtree))
    return frozenset(q for q in _functions_by_qualname(tree) if q not in have and not q.split(".")[-1].startswith("__"))


def _unify_blocks(ref_fn, fn) -> int:
    """branch-wise alpha-unification for the big isinstance-dispatch functions: the bodies of `if`/`elif` branches with
    the same test text are unified one by one (a refactoring of one branch must not keep the others from being recognised)"""

    def branches(f):
        out = {}
        for n in ast.walk(f):
            if isinstance(n, ast.If):
                out.setdefault(" ".join(ast.unparse(n.test).split()), []).append(n)
        return out

    rb, fb = branches(ref_fn), branches(fn)
    lr, lf = _locals_of(ref_fn), _locals_of(fn)
    n = 0
    for key, rl in rb.items():
        fl = fb.get(key)
        if not fl or len(fl) != len(rl):
            continue
        for r_if, f_if in zip(rl, fl):
            rmod = ast.FunctionDef(name="_", args=ref_fn.args, body=r_if.body, decorator_list=[], lineno=0, col_offset=0)
            fmod = ast.FunctionDef(name="_", args=fn.args, body=f_if.body, decorator_list=[], lineno=0, col_offset=0)
            m = alpha_unify(rmod, fmod, lr, lf)
            if m:
                # only names that are local to this branch may be renamed (others are shared with the rest of the function)
                inside = {x.id for s_ in f_if.body for x in ast.walk(s_) if isinstance(x, ast.Name)}
                outside = {x.id for x in ast.walk(fn) if isinstance(x, ast.Name)} - set()
                cnt_in = {}
                for s_ in f_if.body:
                    for x in ast.walk(s_):
                        if isinstance(x, ast.Name):
                            cnt_in[x.id] = cnt_in.get(x.id, 0) + 1
                cnt_all = {}
                for x in ast.walk(fn):
                    if isinstance(x, ast.Name):
                        cnt_all[x.id] = cnt_all.get(x.id, 0) + 1
                m = {k: v for k, v in m.items() if cnt_in.get(k) == cnt_all.get(k) and v not in cnt_all}
                if m:
                    for s_ in f_if.body:
                        apply_rename(s_, m)
                    n += 1
    return n


def canonical_local_names(tree, rel: str) -> int:
    """The rules name some anchors by the spelling of local variables (`query`, `res`, `cols` ...).  A function of the
    analysed tree that equals its counterpart in the reference snapshot (/verif/reference, the tree the rule instances
    were confirmed on) up to a consistent renaming of locals is renamed back to the reference spelling, so that a pure
    rename cannot change any verdict.  Functions that differ in any other way are left as they are (except that single
    branches of their if-chains are still unified)."""
    rtree = _reference_tree(rel)
    if rtree is None:
        return 0
    rf, ff = _functions_by_qualname(rtree), _functions_by_qualname(tree)
    n = 0
    # innermost first, so that an enclosing function is compared after its nested functions were renamed
    for q in sorted(ff, key=lambda s_: -s_.count(".")):
        if q in rf:
            m = alpha_unify(rf[q], ff[q])
            if m is None:
                n += _unify_blocks(rf[q], ff[q])
            elif m:
                apply_rename(ff[q], m)
                n += 1
    return n


SMALL_EDIT_LINES = 6

_IDIOM_TOKENS = {
    # tokens that come and go with idiom changes and carry no behaviour of their own
    "name:itertools", "name:functools", "name:operator", "name:copy", "lambda", "break", "assert", "cmp:is", "cmp:in",
    "cmp:eq", "num:0", "num:1", "attr:chain", "attr:reduce", "name:Optional", "name:Any", "kw:strict=True", "op:Sub",
    "aug:Add", "aug:BitOr", "op:Mult", "raise:", "op:neg",
}  # fmt: skip


def _callees_in_module(tree, fn, depth=3):
    """functions of the same module reachable from fn by calls to a plain name or to a method on self / cls / the class"""
    table = _functions_by_qualname(tree)
    by_simple: dict[str, list] = {}
    for q, f in table.items():
        by_simple.setdefault(q.split(".")[-1], []).append(f)
    seen = {id(fn)}
    out = []
    frontier = [fn]
    for _ in range(depth):
        nxt = []
        for f in frontier:
            for c in ast.walk(f):
                if isinstance(c, ast.Call):
                    nm = None
                    if isinstance(c.func, ast.Name):
                        nm = c.func.id
                    elif isinstance(c.func, ast.Attribute) and isinstance(c.func.value, ast.Name):
                        nm = c.func.attr
                    for g in by_simple.get(nm, []) if nm else []:
                        if id(g) not in seen:
                            seen.add(id(g))
                            out.append(g)
                            nxt.append(g)
        frontier = nxt
    return out


def lost_tokens(module, node):
    """behaviour-carrying tokens (normal.signature) that the reference version of the function containing `node` -
    together with the same-module functions it calls - has, and the analysed version no longer has anywhere.
    None when there is no reference counterpart.  An empty result means: whatever changed, nothing was removed -
    a rule that merely fails to *recognise* a construct has no evidence of a violation."""
    from .normal import signature

    rel = getattr(module, "src_rel", None)
    if rel is None:
        return None
    rtree = _reference_tree(rel)
    if rtree is None:
        return None
    fn = node
    while fn is not None and not isinstance(fn, (ast.FunctionDef, ast.AsyncFunctionDef)):
        fn = getattr(fn, "_parent", None)
    top = fn
    while top is not None:
        p = getattr(top, "_parent", None)
        while p is not None and not isinstance(p, (ast.FunctionDef, ast.AsyncFunctionDef)):
            p = getattr(p, "_parent", None)
        if p is None:
            break
        top = p
    if top is None:
        return None
    q = getattr(top, "_qualname", None)
    rf = _functions_by_qualname(rtree)
    if q is None or q not in rf:
        return None
    cache = module.__dict__.setdefault("_lost_cache", {})
    if q in cache:
        return cache[q]
    # a small edit of an otherwise unchanged function is a targeted change, not a restructuring: a rule that stops
    # recognising its construct there has its evidence (reported as {"<small edit>"})
    import difflib

    la = ast.unparse(rf[q]).splitlines()
    lb = ast.unparse(top).splitlines()
    changed = sum(1 for d in difflib.unified_diff(la, lb, lineterm="", n=0) if d[:1] in "+-" and not d.startswith(("+++", "---")))
    if 0 < changed <= SMALL_EDIT_LINES:
        cache[q] = {f"<small edit: {changed} changed lines>"}
        return cache[q]
    ign = frozenset(x.split(".")[-1] for x in getattr(module, "new_helpers", frozenset()))
    have = set(signature(top, ign))
    for g in _callees_in_module(module.tree, top):
        have |= signature(g, ign)
    ref = set(signature(rf[q]))
    for g in _callees_in_module(rtree, rf[q]):
        ref |= signature(g)
    loc = _locals_of(top) | _locals_of(rf[q])
    for f_ in list(ast.walk(top)) + list(ast.walk(rf[q])):
        if isinstance(f_, (ast.FunctionDef, ast.AsyncFunctionDef)):
            loc.add(f_.name)
            loc |= {a.arg for a in f_.args.args + f_.args.kwonlyargs}
    lost = {
        t for t in ref - have
        if t not in _IDIOM_TOKENS and not t.startswith("name:_") and not t.startswith("attr:_check") and not (t.startswith("name:") and t[5:] in loc)
    }
    cache[q] = lost
    return lost


class Module:
    """one source file; parsing, normalisation and indexing happen on first use (a check touches a handful of the 48
    modules)"""

    _LAZY = ("tree", "defs", "all_funcs", "imports", "n_normalised", "n_alpha", "new_helpers")

    def __init__(self, name: str, path: Path, source: str):
        self.name = name
        self.path = path
        self.source = source
        self.rel = None
        self.src_rel = None
        try:
            idx = path.parts.index("src")
            self.src_rel = str(Path(*path.parts[idx:]))
        except ValueError:
            pass

    def __getattr__(self, item):
        if item in Module._LAZY:
            self._load()
            return self.__dict__[item]
        raise AttributeError(item)

    def _load(self):
        self.tree = ast.parse(self.source, filename=str(self.path))
        self.n_normalised = {}
        self.n_alpha = 0
        self.new_helpers = frozenset()
        if os.environ.get("PDTSA_NORMALISE", "1") != "0":
            rel = self.src_rel
            helpers = new_private_helpers(self.tree, rel) if rel else frozenset()
            self.new_helpers = helpers
            self.n_normalised = _normalise_tree(self.tree, helpers)
            if rel:
                self.n_alpha = canonical_local_names(self.tree, rel)
        for parent in ast.walk(self.tree):
            for child in ast.iter_child_nodes(parent):
                child._parent = parent  # type: ignore[attr-defined]
        self.tree._parent = None  # type: ignore[attr-defined]
        self._index_defs()
        self._index_imports()

    # -- definitions ---------------------------------------------------------
    def _index_defs(self):
        self.defs: dict[str, ast.AST] = {}
        self.all_funcs: list[ast.AST] = []

        def visit(node, prefix):
            for child in ast.iter_child_nodes(node):
                if isinstance(child, (ast.FunctionDef, ast.AsyncFunctionDef, ast.ClassDef)):
                    q = f"{prefix}{child.name}"
                    child._qualname = q  # type: ignore[attr-defined]
                    child._module = self  # type: ignore[attr-defined]
                    # the last definition of a name wins at run time; keep all, too
                    self.defs.setdefault(q, child)
                    self.defs[q] = child
                    if not isinstance(child, ast.ClassDef):
                        self.all_funcs.append(child)
                    visit(child, q + ".")
                elif isinstance(child, ast.Lambda):
                    child._qualname = f"{prefix}<lambda@{child.lineno}>"  # type: ignore[attr-defined]
                    child._module = self  # type: ignore[attr-defined]
                    self.all_funcs.append(child)
                    visit(child, prefix)
                else:
                    visit(child, prefix)

        visit(self.tree, "")

    def _index_imports(self):
        """name -> dotted target (module or module.attr)."""
        self.imports: dict[str, str] = {}
        pkg_parts = self.name.split(".")
        is_pkg = self.path.name == "__init__.py"
        for node in ast.walk(self.tree):
            if isinstance(node, ast.Import):
                for a in node.names:
                    if a.asname:
                        self.imports[a.asname] = a.name
                    else:
                        self.imports[a.name.split(".")[0]] = a.name.split(".")[0]
            elif isinstance(node, ast.ImportFrom):
                if node.level:
                    base = pkg_parts if is_pkg else pkg_parts[:-1]
                    base = base[: len(base) - (node.level - 1)]
                    mod = ".".join(base + ([node.module] if node.module else []))
                else:
                    mod = node.module or ""
                for a in node.names:
                    if a.name == "*":
                        self.imports.setdefault("*", "")
                        self.imports["*"] += ("," if self.imports["*"] else "") + mod
                    else:
                        self.imports[a.asname or a.name] = f"{mod}.{a.name}"

    def func(self, qualname: str):
        node = self.defs.get(qualname)
        if node is None or isinstance(node, ast.ClassDef):
            raise AnalysisError(f"anchor function {self.name}:{qualname} not found")
        return node

    def cls(self, qualname: str) -> ast.ClassDef:
        node = self.defs.get(qualname)
        if not isinstance(node, ast.ClassDef):
            raise AnalysisError(f"anchor class {self.name}:{qualname} not found")
        return node

    def has(self, qualname: str) -> bool:
        return qualname in self.defs

    def toplevel_assign(self, name: str):
        """value expression of the last module-level ``name = ...``"""
        found = None
        for st in self.tree.body:
            if isinstance(st, ast.Assign):
                for t in st.targets:
                    if isinstance(t, ast.Name) and t.id == name:
                        found = st.value
            elif isinstance(st, ast.AnnAssign) and isinstance(st.target, ast.Name) and st.target.id == name:
                if st.value is not None:
                    found = st.value
        return found


class Repo:
    def __init__(self, root: str | os.PathLike = "/repo"):
        self.root = Path(root)
        self.src = self.root / "src"
        self.pkg_dir = self.src / "pydiverse" / "transform"
        if not self.pkg_dir.is_dir():
            raise AnalysisError(f"{self.pkg_dir} not found")
        self.modules: dict[str, Module] = {}
        for path in sorted(self.pkg_dir.rglob("*.py")):
            rel = path.relative_to(self.src).with_suffix("")
            parts = list(rel.parts)
            if parts[-1] == "__init__":
                parts = parts[:-1]
            name = ".".join(parts)
            try:
                m = Module(name, path, path.read_text())
            except SyntaxError as e:
                raise AnalysisError(f"cannot parse {path}: {e}") from e
            m.rel = str(path.relative_to(self.root))
            self.modules[name] = m

    def mod(self, short: str) -> Module:
        """``mod('pipe.verbs')`` -> module pydiverse.transform._internal.pipe.verbs"""
        for cand in (short, f"{INTERNAL}.{short}", f"{PKG}.{short}"):
            if cand in self.modules:
                return self.modules[cand]
        raise AnalysisError(f"anchor module {short} not found")

    def same_as_reference(self) -> bool:
        """is every analysed module textually identical to the snapshot the rule instances were confirmed on?"""
        if not REFERENCE_DIR.exists():
            return True
        for m in self.modules.values():
            rel = getattr(m, "src_rel", None)
            if rel is None:
                continue
            ref = REFERENCE_DIR / rel
            if not ref.exists() or ref.read_text() != m.source:
                return False
        return True

    def digest(self) -> str:
        h = hashlib.sha256()
        for name in sorted(self.modules):
            h.update(name.encode())
            h.update(self.modules[name].source.encode())
        return h.hexdigest()[:16]

    def n_functions(self) -> int:
        return sum(len(m.all_funcs) for m in self.modules.values())


# ---------------------------------------------------------------------------
# helpers on nodes


def parent(node):
    return getattr(node, "_parent", None)


def enclosing_function(node):
    p = parent(node)
    while p is not None and not isinstance(p, (ast.FunctionDef, ast.AsyncFunctionDef, ast.Lambda)):
        p = parent(p)
    return p


def enclosing_def_qualname(node) -> str:
    p = node
    while p is not None:
        if isinstance(p, (ast.FunctionDef, ast.AsyncFunctionDef, ast.ClassDef)) and p is not node:
            return getattr(p, "_qualname", p.name)
        p = parent(p)
    return "<module>"


def qual_of(node) -> str:
    if hasattr(node, "_qualname"):
        return node._qualname
    return enclosing_def_qualname(node)


def norm(node, rename: dict[str, str] | None = None) -> str:
    """normalised text of a construct: ``ast.unparse`` with optional renaming of
    names; insensitive to layout, comments and line numbers."""
    if isinstance(node, str):
        return node
    if rename:
        node = copy.deepcopy(node)
        for n in ast.walk(node):
            if isinstance(n, ast.Name) and n.id in rename:
                n.id = rename[n.id]
            elif isinstance(n, ast.arg) and n.arg in rename:
                n.arg = rename[n.arg]
    try:
        s = ast.unparse(node)
    except Exception:  # pragma: no cover
        s = ast.dump(node)
    return " ".join(s.split())


def short(node, n=160) -> str:
    s = norm(node)
    return s if len(s) <= n else s[: n - 3] + "..."


def dotted(node) -> str | None:
    """``a.b.c`` for Name/Attribute chains, else None"""
    parts = []
    while isinstance(node, ast.Attribute):
        parts.append(node.attr)
        node = node.value
    if isinstance(node, ast.Name):
        parts.append(node.id)
        return ".".join(reversed(parts))
    return None


def call_name(call: ast.Call) -> str | None:
    return dotted(call.func)


def walk_no_nested(node, *, include_lambdas=True):
    """walk the body of a function without descending into nested defs/classes"""
    stack = list(ast.iter_child_nodes(node))
    while stack:
        n = stack.pop()
        yield n
        if isinstance(n, (ast.FunctionDef, ast.AsyncFunctionDef, ast.ClassDef)):
            continue
        if isinstance(n, ast.Lambda) and not include_lambdas:
            continue
        stack.extend(ast.iter_child_nodes(n))


def calls_in(node, *, nested=True):
    it = ast.walk(node) if nested else walk_no_nested(node)
    for n in it:
        if isinstance(n, ast.Call):
            yield n


def kwarg(call: ast.Call, name: str):
    for k in call.keywords:
        if k.arg == name:
            return k.value
    return None


def is_const(node, value=...):
    if not isinstance(node, ast.Constant):
        return False
    return value is ... or (node.value is value if isinstance(value, (bool, type(None))) else node.value == value)


def loc(module: Module, node) -> str:
    return f"{module.rel}:{getattr(node, 'lineno', 0)}"


def names_in(node) -> set[str]:
    return {n.id for n in ast.walk(node) if isinstance(n, ast.Name)}


def attrs_in(node) -> set[str]:
    return {n.attr for n in ast.walk(node) if isinstance(n, ast.Attribute)}


def mentions(node) -> set[str]:
    """all identifiers, attribute names and string constants occurring in node"""
    out = set()
    for n in ast.walk(node):
        if isinstance(n, ast.Name):
            out.add(n.id)
        elif isinstance(n, ast.Attribute):
            out.add(n.attr)
        elif isinstance(n, ast.Constant) and isinstance(n.value, str):
            out.add(n.value)
    return out


# ---------------------------------------------------------------------------
# canonical text: insensitive to introduced locals and to the names of loop variables


class _Renamer(ast.NodeTransformer):
    def __init__(self, mapping):
        self.mapping = mapping

    def visit_Name(self, node):
        if node.id in self.mapping:
            return ast.copy_location(copy.deepcopy(self.mapping[node.id]), node) if not isinstance(self.mapping[node.id], str) else ast.copy_location(
                ast.Name(id=self.mapping[node.id], ctx=node.ctx), node
            )
        return node


def _bound_names(target):
    return [n.id for n in ast.walk(target) if isinstance(n, ast.Name)]


def canon(func):
    """deep copy of a function (or any node) in canonical form:
    (1) a local name that is assigned exactly once by a plain `x = <expr>` statement, never reassigned, not a
        parameter and not used as a call target of a mutation, is replaced by its defining expression (so
        `tmp = a.b; use(tmp)` reads `use(a.b)`); the defining statement is dropped;
    (2) loop variables of comprehensions are renamed `$0, $1, ..` by position, those of `for` statements `$f0, ..`.
    Used only for *recognising* constructs; verdicts are still about the original source."""
    node = copy.deepcopy(func)
    # docstrings carry no behaviour
    for n in ast.walk(node):
        body = getattr(n, "body", None)
        if isinstance(body, list) and body and isinstance(body[0], ast.Expr) and isinstance(body[0].value, ast.Constant) and isinstance(body[0].value.value, str):
            if len(body) > 1:
                n.body = body[1:]
    params = set()
    if isinstance(node, (ast.FunctionDef, ast.AsyncFunctionDef)):
        a = node.args
        params = {x.arg for x in a.posonlyargs + a.args + a.kwonlyargs} | ({a.vararg.arg} if a.vararg else set()) | ({a.kwarg.arg} if a.kwarg else set())
    # --- (1) inline single-assignment locals, repeatedly (chains)
    for _ in range(4):
        counts: dict[str, int] = {}
        defs: dict[str, ast.Assign] = {}
        for n in ast.walk(node):
            if isinstance(n, ast.Assign):
                for t in n.targets:
                    for nm in _bound_names(t) if isinstance(t, (ast.Tuple, ast.List, ast.Name)) else []:
                        counts[nm] = counts.get(nm, 0) + 1
                if len(n.targets) == 1 and isinstance(n.targets[0], ast.Name):
                    defs[n.targets[0].id] = n
            elif isinstance(n, (ast.AugAssign, ast.AnnAssign)):
                for nm in _bound_names(n.target):
                    counts[nm] = counts.get(nm, 0) + 2
            elif isinstance(n, (ast.For, ast.comprehension)):
                for nm in _bound_names(n.target):
                    counts[nm] = counts.get(nm, 0) + 2
            elif isinstance(n, ast.NamedExpr):
                for nm in _bound_names(n.target):
                    counts[nm] = counts.get(nm, 0) + 2
            elif isinstance(n, (ast.With,)):
                for it in n.items:
                    if it.optional_vars is not None:
                        for nm in _bound_names(it.optional_vars):
                            counts[nm] = counts.get(nm, 0) + 2
            elif isinstance(n, ast.ExceptHandler) and n.name:
                counts[n.name] = counts.get(n.name, 0) + 2
        inl = {}
        for nm, st in defs.items():
            if counts.get(nm) != 1 or nm in params:
                continue
            # do not inline values whose identity matters (fresh containers that are mutated later) or big displays
            v = st.value
            mutated = any(
                isinstance(c, ast.Call) and isinstance(c.func, ast.Attribute) and isinstance(c.func.value, ast.Name) and c.func.value.id == nm
                and c.func.attr in ("append", "extend", "update", "add", "clear", "pop", "insert", "remove")
                for c in ast.walk(node)
            ) or any(
                isinstance(s, (ast.Assign, ast.AugAssign)) and any(
                    isinstance(t, (ast.Attribute, ast.Subscript)) and isinstance(t.value, ast.Name) and t.value.id == nm
                    for t in (s.targets if isinstance(s, ast.Assign) else [s.target])
                )
                for s in ast.walk(node)
            )
            if mutated or isinstance(v, (ast.Lambda, ast.Yield, ast.YieldFrom, ast.Await)):
                continue
            # the definition must not mention itself
            if nm in {x.id for x in ast.walk(v) if isinstance(x, ast.Name)}:
                continue
            inl[nm] = v
        if not inl:
            break
        # drop the defining statements and substitute
        class _Drop(ast.NodeTransformer):
            def visit_Assign(self, n):
                if len(n.targets) == 1 and isinstance(n.targets[0], ast.Name) and n.targets[0].id in inl and n is defs.get(n.targets[0].id):
                    return None
                return self.generic_visit(n)

        node = _Drop().visit(node)
        node = _Renamer(inl).visit(node)
        ast.fix_missing_locations(node)
    # --- (2) canonical loop variable names
    counter = [0]

    def rename_comp(n):
        for child in ast.iter_child_nodes(n):
            rename_comp(child)
        if isinstance(n, (ast.ListComp, ast.SetComp, ast.GeneratorExp, ast.DictComp)):
            mapping = {}
            for g in n.generators:
                for nm in _bound_names(g.target):
                    if nm not in mapping:
                        mapping[nm] = f"${len(mapping)}"
            r = _Renamer(mapping)
            for field in ("elt", "key", "value"):
                if hasattr(n, field):
                    setattr(n, field, r.visit(getattr(n, field)))
            for g in n.generators:
                g.target = r.visit(g.target)
                g.iter = r.visit(g.iter)
                g.ifs = [r.visit(c) for c in g.ifs]

    rename_comp(node)
    return node


def ctext(func) -> str:
    return norm(canon(func))


def reachable_functions(mod, f):
    """`f` and the functions of the same module it reaches by name: direct references / calls, functions listed in module- or
    class-level tables the code refers to (`HANDLERS = {Cls: handler}`), handlers named by strings in such tables (getattr
    dispatch).  For rules that must look at "the dispatcher" wherever its cases were moved to."""
    table = {}
    for q, node in mod.defs.items():
        if isinstance(node, (ast.FunctionDef, ast.AsyncFunctionDef)):
            table.setdefault(q.split(".")[-1], []).append(node)
    tables = {}
    for owner in [mod.tree] + [c for c in ast.walk(mod.tree) if isinstance(c, ast.ClassDef)]:
        for st in owner.body:
            tg = st.targets[0] if isinstance(st, ast.Assign) and len(st.targets) == 1 else st.target if isinstance(st, ast.AnnAssign) else None
            if isinstance(tg, ast.Name) and getattr(st, "value", None) is not None:
                tables[tg.id] = st.value
    seen, todo, out = set(), [f], []
    while todo:
        g = todo.pop()
        if id(g) in seen:
            continue
        seen.add(id(g))
        is_fn = isinstance(g, (ast.FunctionDef, ast.AsyncFunctionDef))
        if is_fn:
            out.append(g)
        for n in ast.walk(g):
            nm = n.id if isinstance(n, ast.Name) else n.attr if isinstance(n, ast.Attribute) else None
            if nm in table:
                todo += table[nm]
            if nm in tables:
                todo.append(tables[nm])
            if not is_fn and isinstance(n, ast.Constant) and isinstance(n.value, str) and n.value in table:
                todo += table[n.value]
    return out
