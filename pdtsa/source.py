"""Program model, part 1: parse the working tree of pydiverse.transform.

Nothing here imports or executes the library.  Every run re-parses the files
below ``<repo>/src/pydiverse/transform`` with the standard-library ``ast``.
"""

from __future__ import annotations

import ast
import copy
import hashlib
import os
from pathlib import Path

PKG = "pydiverse.transform"
INTERNAL = PKG + "._internal"


class AnalysisError(Exception):
    """The checker cannot do its job (anchor vanished, unknown shape, floor)."""


class Module:
    def __init__(self, name: str, path: Path, source: str):
        self.name = name
        self.path = path
        self.source = source
        self.tree = ast.parse(source, filename=str(path))
        self.rel = None
        for parent in ast.walk(self.tree):
            for child in ast.iter_child_nodes(parent):
                child._parent = parent  # type: ignore[attr-defined]
        self.tree._parent = None  # type: ignore[attr-defined]
        self._index_defs()
        self._index_imports()

    # -- definitions ---------------------------------------------------------
    def _index_defs(self):
        self.defs: dict[str, ast.AST] = {}
        self.all_funcs: list[ast.AST] = []

        def visit(node, prefix):
            for child in ast.iter_child_nodes(node):
                if isinstance(child, (ast.FunctionDef, ast.AsyncFunctionDef, ast.ClassDef)):
                    q = f"{prefix}{child.name}"
                    child._qualname = q  # type: ignore[attr-defined]
                    child._module = self  # type: ignore[attr-defined]
                    # the last definition of a name wins at run time; keep all, too
                    self.defs.setdefault(q, child)
                    self.defs[q] = child
                    if not isinstance(child, ast.ClassDef):
                        self.all_funcs.append(child)
                    visit(child, q + ".")
                elif isinstance(child, ast.Lambda):
                    child._qualname = f"{prefix}<lambda@{child.lineno}>"  # type: ignore[attr-defined]
                    child._module = self  # type: ignore[attr-defined]
                    self.all_funcs.append(child)
                    visit(child, prefix)
                else:
                    visit(child, prefix)

        visit(self.tree, "")

    def _index_imports(self):
        """name -> dotted target (module or module.attr)."""
        self.imports: dict[str, str] = {}
        pkg_parts = self.name.split(".")
        is_pkg = self.path.name == "__init__.py"
        for node in ast.walk(self.tree):
            if isinstance(node, ast.Import):
                for a in node.names:
                    if a.asname:
                        self.imports[a.asname] = a.name
                    else:
                        self.imports[a.name.split(".")[0]] = a.name.split(".")[0]
            elif isinstance(node, ast.ImportFrom):
                if node.level:
                    base = pkg_parts if is_pkg else pkg_parts[:-1]
                    base = base[: len(base) - (node.level - 1)]
                    mod = ".".join(base + ([node.module] if node.module else []))
                else:
                    mod = node.module or ""
                for a in node.names:
                    if a.name == "*":
                        self.imports.setdefault("*", "")
                        self.imports["*"] += ("," if self.imports["*"] else "") + mod
                    else:
                        self.imports[a.asname or a.name] = f"{mod}.{a.name}"

    def func(self, qualname: str):
        node = self.defs.get(qualname)
        if node is None or isinstance(node, ast.ClassDef):
            raise AnalysisError(f"anchor function {self.name}:{qualname} not found")
        return node

    def cls(self, qualname: str) -> ast.ClassDef:
        node = self.defs.get(qualname)
        if not isinstance(node, ast.ClassDef):
            raise AnalysisError(f"anchor class {self.name}:{qualname} not found")
        return node

    def has(self, qualname: str) -> bool:
        return qualname in self.defs

    def toplevel_assign(self, name: str):
        """value expression of the last module-level ``name = ...``"""
        found = None
        for st in self.tree.body:
            if isinstance(st, ast.Assign):
                for t in st.targets:
                    if isinstance(t, ast.Name) and t.id == name:
                        found = st.value
            elif isinstance(st, ast.AnnAssign) and isinstance(st.target, ast.Name) and st.target.id == name:
                if st.value is not None:
                    found = st.value
        return found


class Repo:
    def __init__(self, root: str | os.PathLike = "/repo"):
        self.root = Path(root)
        self.src = self.root / "src"
        self.pkg_dir = self.src / "pydiverse" / "transform"
        if not self.pkg_dir.is_dir():
            raise AnalysisError(f"{self.pkg_dir} not found")
        self.modules: dict[str, Module] = {}
        for path in sorted(self.pkg_dir.rglob("*.py")):
            rel = path.relative_to(self.src).with_suffix("")
            parts = list(rel.parts)
            if parts[-1] == "__init__":
                parts = parts[:-1]
            name = ".".join(parts)
            try:
                m = Module(name, path, path.read_text())
            except SyntaxError as e:
                raise AnalysisError(f"cannot parse {path}: {e}") from e
            m.rel = str(path.relative_to(self.root))
            self.modules[name] = m

    def mod(self, short: str) -> Module:
        """``mod('pipe.verbs')`` -> module pydiverse.transform._internal.pipe.verbs"""
        for cand in (short, f"{INTERNAL}.{short}", f"{PKG}.{short}"):
            if cand in self.modules:
                return self.modules[cand]
        raise AnalysisError(f"anchor module {short} not found")

    def digest(self) -> str:
        h = hashlib.sha256()
        for name in sorted(self.modules):
            h.update(name.encode())
            h.update(self.modules[name].source.encode())
        return h.hexdigest()[:16]

    def n_functions(self) -> int:
        return sum(len(m.all_funcs) for m in self.modules.values())


# ---------------------------------------------------------------------------
# helpers on nodes


def parent(node):
    return getattr(node, "_parent", None)


def enclosing_function(node):
    p = parent(node)
    while p is not None and not isinstance(p, (ast.FunctionDef, ast.AsyncFunctionDef, ast.Lambda)):
        p = parent(p)
    return p


def enclosing_def_qualname(node) -> str:
    p = node
    while p is not None:
        if isinstance(p, (ast.FunctionDef, ast.AsyncFunctionDef, ast.ClassDef)) and p is not node:
            return getattr(p, "_qualname", p.name)
        p = parent(p)
    return "<module>"


def qual_of(node) -> str:
    if hasattr(node, "_qualname"):
        return node._qualname
    return enclosing_def_qualname(node)


def norm(node, rename: dict[str, str] | None = None) -> str:
    """normalised text of a construct: ``ast.unparse`` with optional renaming of
    names; insensitive to layout, comments and line numbers."""
    if isinstance(node, str):
        return node
    if rename:
        node = copy.deepcopy(node)
        for n in ast.walk(node):
            if isinstance(n, ast.Name) and n.id in rename:
                n.id = rename[n.id]
            elif isinstance(n, ast.arg) and n.arg in rename:
                n.arg = rename[n.arg]
    try:
        s = ast.unparse(node)
    except Exception:  # pragma: no cover
        s = ast.dump(node)
    return " ".join(s.split())


def short(node, n=160) -> str:
    s = norm(node)
    return s if len(s) <= n else s[: n - 3] + "..."


def dotted(node) -> str | None:
    """``a.b.c`` for Name/Attribute chains, else None"""
    parts = []
    while isinstance(node, ast.Attribute):
        parts.append(node.attr)
        node = node.value
    if isinstance(node, ast.Name):
        parts.append(node.id)
        return ".".join(reversed(parts))
    return None


def call_name(call: ast.Call) -> str | None:
    return dotted(call.func)


def walk_no_nested(node, *, include_lambdas=True):
    """walk the body of a function without descending into nested defs/classes"""
    stack = list(ast.iter_child_nodes(node))
    while stack:
        n = stack.pop()
        yield n
        if isinstance(n, (ast.FunctionDef, ast.AsyncFunctionDef, ast.ClassDef)):
            continue
        if isinstance(n, ast.Lambda) and not include_lambdas:
            continue
        stack.extend(ast.iter_child_nodes(n))


def calls_in(node, *, nested=True):
    it = ast.walk(node) if nested else walk_no_nested(node)
    for n in it:
        if isinstance(n, ast.Call):
            yield n


def kwarg(call: ast.Call, name: str):
    for k in call.keywords:
        if k.arg == name:
            return k.value
    return None


def is_const(node, value=...):
    if not isinstance(node, ast.Constant):
        return False
    return value is ... or (node.value is value if isinstance(value, (bool, type(None))) else node.value == value)


def loc(module: Module, node) -> str:
    return f"{module.rel}:{getattr(node, 'lineno', 0)}"


def names_in(node) -> set[str]:
    return {n.id for n in ast.walk(node) if isinstance(n, ast.Name)}


def attrs_in(node) -> set[str]:
    return {n.attr for n in ast.walk(node) if isinstance(n, ast.Attribute)}


def mentions(node) -> set[str]:
    """all identifiers, attribute names and string constants occurring in node"""
    out = set()
    for n in ast.walk(node):
        if isinstance(n, ast.Name):
            out.add(n.id)
        elif isinstance(n, ast.Attribute):
            out.add(n.attr)
        elif isinstance(n, ast.Constant) and isinstance(n.value, str):
            out.add(n.value)
    return out


# ---------------------------------------------------------------------------
# canonical text: insensitive to introduced locals and to the names of loop variables


class _Renamer(ast.NodeTransformer):
    def __init__(self, mapping):
        self.mapping = mapping

    def visit_Name(self, node):
        if node.id in self.mapping:
            return ast.copy_location(copy.deepcopy(self.mapping[node.id]), node) if not isinstance(self.mapping[node.id], str) else ast.copy_location(
                ast.Name(id=self.mapping[node.id], ctx=node.ctx), node
            )
        return node


def _bound_names(target):
    return [n.id for n in ast.walk(target) if isinstance(n, ast.Name)]


def canon(func):
    """deep copy of a function (or any node) in canonical form:
    (1) a local name that is assigned exactly once by a plain `x = <expr>` statement, never reassigned, not a
        parameter and not used as a call target of a mutation, is replaced by its defining expression (so
        `tmp = a.b; use(tmp)` reads `use(a.b)`); the defining statement is dropped;
    (2) loop variables of comprehensions are renamed `$0, $1, ..` by position, those of `for` statements `$f0, ..`.
    Used only for *recognising* constructs; verdicts are still about the original source."""
    node = copy.deepcopy(func)
    # docstrings carry no behaviour
    for n in ast.walk(node):
        body = getattr(n, "body", None)
        if isinstance(body, list) and body and isinstance(body[0], ast.Expr) and isinstance(body[0].value, ast.Constant) and isinstance(body[0].value.value, str):
            if len(body) > 1:
                n.body = body[1:]
    params = set()
    if isinstance(node, (ast.FunctionDef, ast.AsyncFunctionDef)):
        a = node.args
        params = {x.arg for x in a.posonlyargs + a.args + a.kwonlyargs} | ({a.vararg.arg} if a.vararg else set()) | ({a.kwarg.arg} if a.kwarg else set())
    # --- (1) inline single-assignment locals, repeatedly (chains)
    for _ in range(4):
        counts: dict[str, int] = {}
        defs: dict[str, ast.Assign] = {}
        for n in ast.walk(node):
            if isinstance(n, ast.Assign):
                for t in n.targets:
                    for nm in _bound_names(t) if isinstance(t, (ast.Tuple, ast.List, ast.Name)) else []:
                        counts[nm] = counts.get(nm, 0) + 1
                if len(n.targets) == 1 and isinstance(n.targets[0], ast.Name):
                    defs[n.targets[0].id] = n
            elif isinstance(n, (ast.AugAssign, ast.AnnAssign)):
                for nm in _bound_names(n.target):
                    counts[nm] = counts.get(nm, 0) + 2
            elif isinstance(n, (ast.For, ast.comprehension)):
                for nm in _bound_names(n.target):
                    counts[nm] = counts.get(nm, 0) + 2
            elif isinstance(n, ast.NamedExpr):
                for nm in _bound_names(n.target):
                    counts[nm] = counts.get(nm, 0) + 2
            elif isinstance(n, (ast.With,)):
                for it in n.items:
                    if it.optional_vars is not None:
                        for nm in _bound_names(it.optional_vars):
                            counts[nm] = counts.get(nm, 0) + 2
            elif isinstance(n, ast.ExceptHandler) and n.name:
                counts[n.name] = counts.get(n.name, 0) + 2
        inl = {}
        for nm, st in defs.items():
            if counts.get(nm) != 1 or nm in params:
                continue
            # do not inline values whose identity matters (fresh containers that are mutated later) or big displays
            v = st.value
            mutated = any(
                isinstance(c, ast.Call) and isinstance(c.func, ast.Attribute) and isinstance(c.func.value, ast.Name) and c.func.value.id == nm
                and c.func.attr in ("append", "extend", "update", "add", "clear", "pop", "insert", "remove")
                for c in ast.walk(node)
            ) or any(
                isinstance(s, (ast.Assign, ast.AugAssign)) and any(
                    isinstance(t, (ast.Attribute, ast.Subscript)) and isinstance(t.value, ast.Name) and t.value.id == nm
                    for t in (s.targets if isinstance(s, ast.Assign) else [s.target])
                )
                for s in ast.walk(node)
            )
            if mutated or isinstance(v, (ast.Lambda, ast.Yield, ast.YieldFrom, ast.Await)):
                continue
            # the definition must not mention itself
            if nm in {x.id for x in ast.walk(v) if isinstance(x, ast.Name)}:
                continue
            inl[nm] = v
        if not inl:
            break
        # drop the defining statements and substitute
        class _Drop(ast.NodeTransformer):
            def visit_Assign(self, n):
                if len(n.targets) == 1 and isinstance(n.targets[0], ast.Name) and n.targets[0].id in inl and n is defs.get(n.targets[0].id):
                    return None
                return self.generic_visit(n)

        node = _Drop().visit(node)
        node = _Renamer(inl).visit(node)
        ast.fix_missing_locations(node)
    # --- (2) canonical loop variable names
    counter = [0]

    def rename_comp(n):
        for child in ast.iter_child_nodes(n):
            rename_comp(child)
        if isinstance(n, (ast.ListComp, ast.SetComp, ast.GeneratorExp, ast.DictComp)):
            mapping = {}
            for g in n.generators:
                for nm in _bound_names(g.target):
                    if nm not in mapping:
                        mapping[nm] = f"${len(mapping)}"
            r = _Renamer(mapping)
            for field in ("elt", "key", "value"):
                if hasattr(n, field):
                    setattr(n, field, r.visit(getattr(n, field)))
            for g in n.generators:
                g.target = r.visit(g.target)
                g.iter = r.visit(g.iter)
                g.ifs = [r.visit(c) for c in g.ifs]

    rename_comp(node)
    return node


def ctext(func) -> str:
    return norm(canon(func))
