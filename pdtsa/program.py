"""Whole-package interpretation: module environments that resolve names across the package on demand.

``Program(repo)`` gives every module of the library an environment in which a name is bound the first time it is
looked up: to the interpreted function / class of that module, to the entity it imports from another module of the
package (resolved in *that* module's environment), to a symbolic namespace (``SymNS``) for third-party libraries, or to
a small model of the standard-library helpers the library uses (copy, uuid, functools, operator, itertools, re).  The type
system (tree/types.py and the pydiverse.common classes) is bound to the validated model (typefns.SourceTypes).

Nothing is imported or executed: functions run in interp.Interp over stub objects, third-party calls build terms.
"""

from __future__ import annotations

import ast
import functools
import itertools
import operator
import re

from .catalogue import _ModuleNS
from .interp import ExcCtor, Func, IClass, Interp, Native, NoOp, Obj, SymNS
from .source import AnalysisError
from .typefns import LazyNS

THIRD_PARTY = ("sqlalchemy", "polars", "pyarrow", "numpy", "pandas", "duckdb", "pydiverse.common")
PKG = "pydiverse.transform"


class ModuleEnv(dict):
    """module globals, filled lazily"""

    def __init__(self, program, mod):
        super().__init__()
        self.program, self.mod = program, mod
        self._resolving: set = set()

    def __contains__(self, k):
        if dict.__contains__(self, k):
            return True
        try:
            self[k]
        except KeyError:
            return False
        return True

    def __missing__(self, k):
        if k in self._resolving:
            raise KeyError(k)
        self._resolving.add(k)
        try:
            v = self.program.resolve(self, k)
        finally:
            self._resolving.discard(k)
        dict.__setitem__(self, k, v)
        return v

    def get(self, k, default=None):
        try:
            return self[k]
        except KeyError:
            return default


class Program:
    def __init__(self, repo, types_env=None, primary="tree.col_expr"):
        self.repo = repo
        self.types_env = types_env
        self.envs: dict[str, ModuleEnv] = {}
        self.it = Interp(repo.mod(primary), {})
        self.it.memo_enabled = False
        self._uuid = itertools.count()
        self._tables: dict[str, dict] = {}
        self.import_overrides: dict = {}  # name -> stub, for imports executed inside interpreted functions
        self.it.import_hook = self._import_hook

    def _import_hook(self, st, alias):
        nm = alias.asname or alias.name.split(".")[0]
        if nm in self.import_overrides:
            return self.import_overrides[nm]
        if isinstance(st, ast.Import):
            return self.module_value(alias.name, nm)
        return self.resolve_import(("from", st.module or "", alias.name), nm)

    # ---- module tables ---------------------------------------------------------------------------------------------
    def table(self, mod):
        t = self._tables.get(mod.name)
        if t is None:
            defs, imports, assigns = {}, {}, {}

            def scan(body):
                for st in body:
                    if isinstance(st, (ast.FunctionDef, ast.ClassDef)):
                        if isinstance(st, ast.FunctionDef) and any("overload" in ast.unparse(d) for d in st.decorator_list):
                            continue  # typing stubs
                        defs[st.name] = st
                    elif isinstance(st, ast.Import):
                        for a in st.names:
                            imports[a.asname or a.name.split(".")[0]] = ("module", a.name if a.asname else a.name.split(".")[0])
                    elif isinstance(st, ast.ImportFrom):
                        base = st.module or ""
                        if st.level:
                            parts = mod.name.split(".")
                            base = ".".join(parts[: len(parts) - st.level] + ([st.module] if st.module else []))
                        for a in st.names:
                            imports[a.asname or a.name] = ("from", base, a.name)
                    elif isinstance(st, ast.Assign) and len(st.targets) == 1 and isinstance(st.targets[0], ast.Name):
                        assigns[st.targets[0].id] = st.value
                    elif isinstance(st, ast.AnnAssign) and isinstance(st.target, ast.Name) and st.value is not None:
                        assigns[st.target.id] = st.value
                    elif isinstance(st, ast.With):
                        # `with Store.impl_manager as impl:` holds the registered implementation functions
                        for s2 in st.body:
                            if isinstance(s2, ast.FunctionDef):
                                defs.setdefault(s2.name, s2)
                    elif isinstance(st, (ast.If, ast.Try)):
                        scan(st.body)

            scan(mod.tree.body)
            t = self._tables[mod.name] = {"defs": defs, "imports": imports, "assigns": assigns}
        return t

    def env_of(self, mod) -> ModuleEnv:
        e = self.envs.get(mod.name)
        if e is None:
            e = self.envs[mod.name] = ModuleEnv(self, mod)
        return e

    def module_named(self, dotted):
        m = self.repo.modules.get(dotted)
        if m is None and dotted.startswith(PKG):
            m = self.repo.modules.get(dotted + ".__init__")
        return m

    # ---- resolution ------------------------------------------------------------------------------------------------
    def resolve(self, env: ModuleEnv, name):
        mod = env.mod
        if mod.name.endswith("tree.types") and self.types_env is not None:
            if name in self.types_env:
                return self.types_env[name]
        t = self.table(mod)
        if name in t["defs"]:
            d = t["defs"][name]
            if isinstance(d, ast.FunctionDef):
                return Func(d, env, self.it)
            if any(isinstance(b, ast.Name) and (b.id.endswith(("Error", "Exception", "Warning")) or b.id == "ErrorWithSource") for b in d.bases) or d.name == "ErrorWithSource":
                return ExcCtor(d.name)  # exception classes are values of the exception model (name + message)
            if any("Enum" in ast.unparse(b) for b in d.bases):
                return self.make_enum(d)
            return self.make_class(d, env)
        if name in t["imports"]:
            return self.resolve_import(t["imports"][name], name)
        if name in t["assigns"]:
            return self.it.ev(t["assigns"][name], env)
        if name.endswith("Error") or name.endswith("Warning") or name == "Exception":
            return ExcCtor(name)
        raise KeyError(name)

    def make_enum(self, node):
        """an enum class of the library as a real Python enum with the same members (values are constants in the source)"""
        import enum

        members = {}
        for st in node.body:
            if isinstance(st, ast.Assign) and len(st.targets) == 1 and isinstance(st.targets[0], ast.Name):
                v = st.value
                members[st.targets[0].id] = v.value if isinstance(v, ast.Constant) else len(members) + 1
        base = enum.IntEnum if all(isinstance(v, int) for v in members.values()) else enum.Enum
        e = base(node.name, members)
        return _ModuleNS({k: e[k] for k in members} | {"__members__": dict(e.__members__)})

    def make_class(self, node, env):
        # bases are looked up in env (and thereby resolved across modules) by Interp.make_class
        old = self.it.global_resolver
        self.it.global_resolver = lambda n: env[n]
        try:
            return self.it.make_class(node, env)
        finally:
            self.it.global_resolver = old

    def resolve_import(self, imp, name):
        if imp[0] == "module":
            return self.module_value(imp[1], name)
        _, base, attr = imp
        if base.split(".")[0] in ("sqlalchemy", "polars", "pyarrow", "numpy", "pandas", "duckdb"):
            return SymNS(name)
        if base.startswith("pydiverse.common"):
            if self.types_env is not None and attr in self.types_env:
                return self.types_env[attr]
            return SymNS(name)
        if base.startswith(PKG):
            target = self.module_named(f"{base}.{attr}")
            if target is not None:  # `from pkg import module`
                return LazyNS(self.env_of(target))
            m = self.module_named(base)
            if m is None:
                raise KeyError(name)
            return self.env_of(m)[attr]
        return self.stdlib(base, attr, name)

    def module_value(self, dotted, name):
        root = dotted.split(".")[0]
        if root in ("sqlalchemy", "polars", "pyarrow", "numpy", "pandas", "duckdb"):
            return SymNS(name)
        if dotted.startswith(PKG):
            m = self.module_named(dotted)
            if m is not None:
                return LazyNS(self.env_of(m))
        return self.stdlib_module(root)

    # ---- standard library models -----------------------------------------------------------------------------------
    def fresh_uuid(self):
        return f"uuid#{next(self._uuid)}"

    def stdlib_module(self, root):
        import copy as _copy

        if root == "copy":
            return _ModuleNS({"copy": Native(_copy.copy, "copy.copy")})
        if root == "uuid":
            return _ModuleNS({"uuid1": Native(self.fresh_uuid, "uuid.uuid1"), "uuid4": Native(self.fresh_uuid, "uuid.uuid4"), "UUID": NoOp("UUID")})
        if root == "functools":
            return _ModuleNS({"partial": functools.partial, "reduce": functools.reduce, "wraps": NoOp("wraps")})
        if root == "operator":
            return _ModuleNS({k: v for k, v in vars(operator).items() if not k.startswith("_")})
        if root == "itertools":
            from .catalogue import _bounded_count

            return _ModuleNS({"chain": itertools.chain, "product": itertools.product, "count": _bounded_count, "starmap": itertools.starmap,
                              "filterfalse": itertools.filterfalse, "pairwise": itertools.pairwise, "zip_longest": itertools.zip_longest,
                              "islice": itertools.islice, "repeat": itertools.repeat, "accumulate": itertools.accumulate,
                              "permutations": itertools.permutations, "combinations": itertools.combinations, "groupby": itertools.groupby})  # fmt: skip
        if root == "re":
            return _ModuleNS({k: getattr(re, k) for k in ("compile", "sub", "match", "fullmatch", "search", "escape", "split", "findall")})
        if root == "dataclasses":
            return _ModuleNS({"dataclass": NoOp("dataclass"), "field": "dataclasses.field"})
        if root == "math":
            import math as _math

            return _ModuleNS({k: getattr(_math, k) for k in ("isnan", "isinf", "isfinite", "floor", "ceil", "inf", "nan", "log", "sqrt")})
        if root in ("warnings", "logging"):
            return _ModuleNS({"warn": NoOp("warn")})
        raise KeyError(root)

    def stdlib(self, base, attr, name):
        root = base.split(".")[0]
        if root == "collections" and not base.startswith("collections.abc") and attr in ("Counter", "defaultdict", "OrderedDict", "deque"):
            import collections as _c

            return {"Counter": _c.Counter, "defaultdict": _c.defaultdict, "OrderedDict": dict, "deque": _c.deque}[attr]
        if root in ("typing", "collections", "abc", "types", "__future__", "enum", "datetime", "decimal", "pprint"):
            n = NoOp(attr)
            if root in ("typing", "collections"):
                import collections.abc as _abc

                if isinstance(getattr(_abc, attr, None), type):
                    n.abc = getattr(_abc, attr)  # isinstance(x, Iterable) is decided (interp._isinstance)
            return n
        mod = self.stdlib_module(root)
        try:
            return getattr(mod, attr)
        except AttributeError:
            raise KeyError(name) from None

    # ---- stub construction -----------------------------------------------------------------------------------------
    def cls(self, mod_short, name) -> IClass:
        v = self.env_of(self.repo.mod(mod_short))[name]
        if not isinstance(v, IClass):
            raise AnalysisError(f"program: `{name}` of {mod_short} is not a class")
        return v

    def new(self, mod_short, cls_name, **attrs):
        """an instance built field by field (no constructor runs)"""
        o = Obj(self.cls(mod_short, cls_name))
        o.attrs.update(attrs)
        return o

    def call(self, f, args, kwargs=None):
        return self.it.call(f, list(args), dict(kwargs or {}), None, None)

    def class_attr(self, cls_: IClass, name):
        """class-level attribute or (class-bound) method of an interpreted class"""
        if name in cls_.methods:
            m_ = cls_.methods[name]
            return m_.bind(cls_) if self.it._method_kind(m_) == "classmethod" else m_
        return self.it.class_attr(cls_, name)

    def method(self, obj: Obj, name):
        m = obj.cls.methods.get(name)
        if m is None:
            raise AnalysisError(f"program: {obj.cls.name} has no method {name}")
        return m.bind(obj)
