"""LIKE-based string operators of the SQL back ends interpreted over terms.

Every registered implementation of ``str.starts_with`` / ``str.ends_with`` / ``str.contains`` of a SQL back end is
interpreted (program.Program, SQLAlchemy symbolic) with a symbolic column and a *pattern of either kind the dispatcher can
hand over*: a Python string (the usual case: a literal pattern, unwrapped for Const parameters) and a compiled expression (a
pattern that is a constant expression but not a literal).  Whatever helper, method value or computed callee the source uses,
the function returns the term it builds; in it every LIKE-family call (``startswith`` / ``endswith`` / ``contains`` /
``like`` / ``ilike``) must escape its pattern: ``autoescape=True`` or an explicit ``escape=`` character.  An implementation
that refuses a pattern kind (raises) does not build a statement at all, which is safe.
"""

from __future__ import annotations

from .interp import Func, PyRaise, SymbolicBranch, Term, Var  # noqa: F401
from .source import AnalysisError

LIKE_FAMILY = {"startswith", "endswith", "contains", "like", "ilike", "notlike", "not_like", "istartswith", "iendswith", "icontains"}
LIKE_OPS = ("str_starts_with", "str_ends_with", "str_contains")


def like_scenarios(repo, regs, types_env=None):
    """-> list of (registration, description, ok, detail, decided)"""
    from .program import Program

    p = Program(repo, types_env, primary="backend.sql")
    out = []
    for r in regs:
        if r.opvar not in LIKE_OPS or r.store == "PolarsImpl" or "Polars" in r.store:
            continue
        env = p.env_of(r.module)
        f = Func(r.func, env, p.it)
        params = [a.arg for a in r.func.args.args]
        for kind, pattern in (("a python string", "50%_a\\"), ("a compiled constant expression", Var("compiled_pattern"))):
            args = [Var("x"), pattern]
            # further positional parameters of str.contains: allow_regex / true_if_regex_unsupported -> the literal (non-regex) mode
            args += [False] * (len(params) - 2)
            label = f"{r.store}: ops.{r.opvar} with {kind} as pattern"
            try:
                t = p.call(f, args)
            except PyRaise as e:
                out.append((r, f"{label}: refused ({e.name})", True, "", True))
                continue
            except (AnalysisError, SymbolicBranch) as e:
                out.append((r, label, True, f"not interpreted: {str(e)[:120]}", False))
                continue
            likes = [x for x in (t.walk() if isinstance(t, Term) else []) if isinstance(x, Term) and x.fn.split(".")[-1] in LIKE_FAMILY]
            bad = [x for x in likes if not (x.kwargs.get("autoescape") is True or x.kwargs.get("escape") is not None)]
            # hand-written escaping of a python-string pattern: decoding the escaped text must give back the pattern, with
            # wildcards only where the operator adds them
            for x in likes:
                esc = x.kwargs.get("escape")
                if x.kwargs.get("autoescape") is True or not isinstance(esc, str) or len(esc) != 1 or not x.args or not isinstance(x.args[0], str) or not isinstance(pattern, str):
                    continue
                lit, wild, i, text = [], [], 0, x.args[0]
                while i < len(text):
                    ch = text[i]
                    if ch == esc and i + 1 < len(text):
                        lit.append(text[i + 1])
                        i += 2
                        continue
                    if ch in "%_":
                        wild.append((len(lit), ch))
                    else:
                        lit.append(ch)
                    i += 1
                meth = x.fn.split(".")[-1]
                want = {"str_starts_with": [(len(pattern), "%")], "str_ends_with": [(0, "%")], "str_contains": [(0, "%"), (len(pattern), "%")]}[r.opvar] if meth in ("like", "ilike") else []
                if "".join(lit) != pattern or wild != want:
                    bad.append(x)
            out.append((r, f"{label}: every LIKE pattern is escaped ({len(likes)} LIKE call(s))", not bad,
                        f"{label}: the implementation builds {str(bad[0])[:160] if bad else ''} - a LIKE pattern without autoescape / escape: `%`, `_` in the "
                        "value act as wildcards (the same pattern matches literally on Polars)", True))  # fmt: skip
    return out


# ---- value level ---------------------------------------------------------------------------------------------------------------
SAMPLE_PATTERNS = ("", "a", "ab", "b", "%", "_", "a%", "\\")
SAMPLE_VALUES = (None, "", "a", "ab", "ba", "abab", "a%", "%", "_b", "xb", "a\\", "b%a")
PY_SPEC = {
    "str_starts_with": lambda x, y: x.startswith(y),
    "str_ends_with": lambda x, y: x.endswith(y),
    "str_contains": lambda x, y: y in x,
}
DIALECT_OF = {"SqliteImpl": "sqlite", "PostgresImpl": "postgresql", "DuckDbImpl": "duckdb", "MsSqlImpl": "mssql", "SqlImpl": "postgresql"}


def like_value_scenarios(repo, regs, types_env=None):
    """every SQL implementation of starts_with / ends_with / literal contains, interpreted with each sample pattern (a python
    string: the empty string, one / two characters, the LIKE wildcards, a backslash) and the term it builds *evaluated* for each
    sample value (sqleval: LIKE with its escape, SQLite's substr / instr / length as documented) against Python's
    str.startswith / endswith / in; NULL gives NULL.  Lower-case samples only (SQLite's LIKE ignores ASCII case, a documented
    deviation).  A function sqleval does not know leaves the combination undecided.
    -> list of (registration, description, ok, detail, decided)"""
    from . import sqleval
    from .program import Program

    p = Program(repo, types_env, primary="backend.sql")
    out = []
    for r in regs:
        if r.opvar not in LIKE_OPS or "Polars" in r.store:
            continue
        dialect = DIALECT_OF.get(r.store)
        if dialect is None:
            continue
        env = p.env_of(r.module)
        f = Func(r.func, env, p.it)
        params = [a.arg for a in r.func.args.args]
        spec = PY_SPEC[r.opvar]
        n_eval, bad, unknown = 0, None, None
        for pat in SAMPLE_PATTERNS:
            try:
                t = p.call(f, [Var("x"), pat] + [False] * (len(params) - 2))
            except PyRaise:
                continue  # refused: no statement
            except (AnalysisError, SymbolicBranch) as e:
                unknown = f"not interpreted: {str(e)[:100]}"
                break
            for x in SAMPLE_VALUES:
                try:
                    got = sqleval.evaluate(t, {"x": x}, dialect)
                except sqleval.Unknown as e:
                    unknown = str(e)[:100]
                    break
                want = None if x is None else spec(x, pat)
                n_eval += 1
                if got != want and bad is None:
                    bad = (x, pat, got, want, t)
            if unknown:
                break
        label = f"{r.store}: ops.{r.opvar} evaluated for {len(SAMPLE_PATTERNS)} patterns x {len(SAMPLE_VALUES)} values"
        if unknown:
            out.append((r, label, True, unknown, False))
            continue
        detail = ""
        if bad:
            x, pat, got, want, t = bad
            detail = (f"{r.store}: `{r.opvar.replace('str_', 'str.')}` of the value {x!r} with the pattern {pat!r} compiles to {str(t)[:140]}, which is {got!r} "
                      f"under {dialect}'s semantics; Polars / Python give {want!r}")
        out.append((r, label, bad is None, detail, True))
    return out
