"""``Table`` accessors (``t.name``, ``t[...]``, ``in``, iteration, ``len``) interpreted on a stub cache.

pipe/table.py is interpreted with the rest of the package (program.Program); the table is built field by field around an
interpreted ``Cache`` instance holding two visible columns, one hidden column and a column of another table.  The
scenarios are the lookup rules of the column-access contract.
"""

from __future__ import annotations

from .interp import Obj, PyRaise, SymbolicBranch  # noqa: F401
from .source import AnalysisError


def table_scenarios(repo):
    """-> list of (accessor, description, ok, detail); raises AnalysisError / SymbolicBranch when undecidable"""
    from .program import Program

    p = Program(repo, primary="pipe.table")
    node = p.new("tree.verbs", "Ungroup", child=None, name="tbl")
    other = p.new("tree.verbs", "Ungroup", child=None, name="other")

    def col(name, uid, ast_=node):
        return p.new("tree.col_expr", "Col", name=name, _ast=ast_, _uuid=uid, _dtype="dt-" + name, _ftype="ft-" + name)

    # the stored Col objects carry their creation-time name (`a0`): the current name comes from the maps
    cols = {"U1": col("a0", "U1"), "U2": col("b", "U2"), "UH": col("h", "UH")}
    cache = p.new(
        "pipe.cache", "Cache", name_to_uuid={"a": "U1", "b": "U2"}, uuid_to_name={"U1": "a", "U2": "b"}, partition_by=[],
        derived_from={node}, cols=cols, limit=None, group_by=set(), is_filtered=False, backend=None,
    )  # fmt: skip
    tbl = p.new("pipe.table", "Table", _ast=node, _cache=cache)
    T = tbl.cls
    cn = lambda n: p.new("tree.col_expr", "ColName", name=n, _dtype=None, _ftype=None)  # noqa: E731

    def call(meth, *args):
        try:
            return ("value", p.call(T.methods[meth].bind(tbl), list(args)))
        except PyRaise as e:
            return ("raise", e.name)

    def is_col(r, name, uid, dtype=True):
        return (
            r[0] == "value" and isinstance(r[1], Obj) and r[1].cls.name == "Col" and r[1].attrs.get("name") == name and r[1].attrs.get("_uuid") == uid
            and r[1].attrs.get("_ast") is node and (not dtype or r[1].attrs.get("_dtype") == cols[uid].attrs["_dtype"])
        )  # fmt: skip

    out = []

    def add(acc, desc, ok, got):
        out.append((acc, desc, bool(ok), f"{acc}: {desc}: got {got[0]} {got[1] if got[0] == 'raise' else (got[1].attrs if isinstance(got[1], Obj) else got[1])}"))

    r = call("__getattr__", "a")
    add("Table.__getattr__", "visible name -> column reference with the current name, identity and type of the column, bound to this table", is_col(r, "a", "U1"), r)
    r = call("__getattr__", "zz")
    add("Table.__getattr__", "unknown name -> ColumnNotFoundError", r == ("raise", "ColumnNotFoundError"), r)
    r = call("__getattr__", "h")
    add("Table.__getattr__", "hidden column's name -> ColumnNotFoundError", r == ("raise", "ColumnNotFoundError"), r)
    r = call("__getattr__", "__deepcopy__")
    add("Table.__getattr__", "copy protocol dunder -> AttributeError", r == ("raise", "AttributeError"), r)
    r = call("__getitem__", "b")
    add("Table.__getitem__", "t['b']", is_col(r, "b", "U2"), r)
    r = call("__getitem__", cn("a"))
    add("Table.__getitem__", "t[C.a]", is_col(r, "a", "U1"), r)
    r = call("__getitem__", cn("zz"))
    add("Table.__getitem__", "t[C.zz] -> ColumnNotFoundError", r == ("raise", "ColumnNotFoundError"), r)
    r = call("__getitem__", col("old_name", "U1", other))
    add("Table.__getitem__", "t[reference from an earlier table] -> the column under its current name", is_col(r, "a", "U1", dtype=False), r)
    r = call("__getitem__", cols["UH"])
    add("Table.__getitem__", "t[hidden column] -> ColumnNotFoundError", r == ("raise", "ColumnNotFoundError"), r)
    r = call("__getitem__", col("a", "UX", other))
    add("Table.__getitem__", "t[column of another table with a visible name] -> ColumnNotFoundError", r == ("raise", "ColumnNotFoundError"), r)
    for arg, want, desc in (
        ("a", True, "'a' in t"), ("h", False, "hidden name in t"), (cn("b"), True, "C.b in t"), (cn("zz"), False, "C.zz in t"),
        (cols["U1"], True, "visible column in t"), (cols["UH"], False, "hidden column in t"), (col("a", "UX", other), False, "foreign column with a visible name in t"),
    ):  # fmt: skip
        r = call("__contains__", arg)
        add("Table.__contains__", desc, r == ("value", want), r)
    r = call("__len__")
    add("Table.__len__", "number of visible columns", r == ("value", 2), r)
    r = call("__iter__")
    seq = list(p.it.iterate(r[1])) if r[0] == "value" else []
    add("Table.__iter__", "visible columns in order", len(seq) == 2 and is_col(("value", seq[0]), "a", "U1") and is_col(("value", seq[1]), "b", "U2"), r)
    if "__dir__" in T.methods:
        r = call("__dir__")
        names = list(p.it.iterate(r[1])) if r[0] == "value" else []
        add("Table.__dir__", "offers the visible column names (not the hidden ones)", "a" in names and "b" in names and "h" not in names and "a0" not in names, r)
    sc = cache.cls.methods.get("selected_cols")
    if sc is not None:
        try:
            r = ("value", p.call(sc.bind(cache), []))
        except PyRaise as e:
            r = ("raise", e.name)
        seq = list(p.it.iterate(r[1])) if r[0] == "value" else []
        add("Cache.selected_cols", "the visible columns' Col objects, in the order of the name maps", len(seq) == 2 and seq[0] is cols["U1"] and seq[1] is cols["U2"], r)
    return out


def stub_table(p, hidden=True, grouped=False):
    node = p.new("tree.verbs", "Ungroup", child=None, name="tbl")

    def col(name, uid):
        return p.new("tree.col_expr", "Col", name=name, _ast=node, _uuid=uid, _dtype="dt", _ftype="ft")

    cols = {"U1": col("a", "U1"), "U2": col("b", "U2")}
    if hidden:
        cols["UH"] = col("h", "UH")
    cache = p.new(
        "pipe.cache", "Cache", name_to_uuid={"a": "U1", "b": "U2"}, uuid_to_name={"U1": "a", "U2": "b"}, partition_by=["U2"] if grouped else [],
        derived_from={node}, cols=cols, limit=None, group_by=set(), is_filtered=False, backend=None,
    )  # fmt: skip
    return p.new("pipe.table", "Table", _ast=node, _cache=cache), node, cache


def alias_scenarios(repo):
    """the body of the `alias` verb interpreted on a stub table (its decorators - pipe plumbing, cache update - are decided
    elsewhere).  -> list of (description, ok, detail)"""
    from .program import Program

    p = Program(repo, primary="pipe.verbs")
    vb = repo.mod("pipe.verbs")
    f = p.env_of(vb)["alias"]
    out = []
    for keep in (False, True):
        tbl, node, cache = stub_table(p)
        before_name = node.attrs["name"]
        res = p.call(f, [tbl, "other"], {"keep_col_refs": keep})
        a = res.attrs.get("_ast") if isinstance(res, Obj) else None
        ok_node = isinstance(a, Obj) and a.cls.name == "Alias" and a.attrs.get("child") is node and res is not tbl and tbl.attrs["_ast"] is node
        out.append((f"alias(keep_col_refs={keep}) returns a new table whose node is Alias(<input node>)", ok_node, f"alias returns {res!r}"[:200]))
        if not ok_node:
            continue
        out.append((f"alias(keep_col_refs={keep}) names the new node and leaves the input's name alone", a.attrs.get("name") == "other" and node.attrs["name"] == before_name,
                    f"after alias('other') the alias node is named {a.attrs.get('name')!r} and the input node {node.attrs['name']!r} (was {before_name!r})"))  # fmt: skip
        um = a.attrs.get("uuid_map")
        if keep:
            out.append(("alias(keep_col_refs=True) keeps the identities (uuid_map is None)", um is None, f"uuid_map = {um!r}"))
        else:
            scope = set(cache.attrs["cols"])
            ok_map = isinstance(um, dict) and set(um) == scope and len(set(um.values())) == len(scope) and not (set(um.values()) & scope)
            out.append(("alias() maps every column in scope (hidden ones included) to a fresh, distinct identity", ok_map,
                        f"uuid_map = {um!r} for the columns in scope {sorted(scope)}: a column outside the map cannot be resolved after the alias "
                        "(KeyError in Cache.update), a shared identity makes a self-join ambiguous"))  # fmt: skip
    tbl, node, cache = stub_table(p)
    res = p.call(f, [tbl], {})
    a = res.attrs.get("_ast") if isinstance(res, Obj) else None
    out.append(("alias() without a name keeps the table name", isinstance(a, Obj) and a.attrs.get("name") == "tbl", f"name = {a.attrs.get('name') if isinstance(a, Obj) else None!r}"))
    return out


def check_subquery_scenarios(repo):
    """pipe/pipeable.py check_subquery interpreted on stub tables: a pipeline `leaf >> alias >> mutate` receives a new verb;
    the caches answer with programmed reasons.  -> list of (description, ok, detail)"""
    from .exprsim import LEAF_SRC, ExprWorld
    from .interp import Native
    from .program import Program
    import ast as _ast

    p = Program(repo, primary="pipe.pipeable")
    venv = p.env_of(repo.mod("tree.verbs"))
    venv["_fresh_uuid"] = Native(p.fresh_uuid, "uuid1")
    venv["StubLeaf"] = p.make_class(_ast.parse(LEAF_SRC).body[0], venv)
    f = p.env_of(repo.mod("pipe.pipeable"))["check_subquery"]
    out = []

    def build(with_alias=True):
        leaf = p.call(venv["StubLeaf"], ["t", ["a"]])
        ua = leaf.attrs["cols"]["a"].attrs["_uuid"]
        node = leaf
        alias = None
        if with_alias:
            alias = p.new("tree.verbs", "Alias", child=leaf, name="t", uuid_map=None)
            node = alias
        ref = p.new("tree.col_expr", "Col", name="a", _ast=leaf, _uuid=ua, _dtype=None, _ftype=None)
        mid = p.new("tree.verbs", "Mutate", child=node, name="t", names=["m"], values=[ref], uuids=["um"])
        top = p.new("tree.verbs", "Filter", child=mid, name="t", predicates=[p.new("tree.col_expr", "Col", name="m", _ast=mid, _uuid="um", _dtype=None, _ftype=None)])
        return leaf, alias, mid, top

    def table(node, reasons):
        """stub table whose cache answers requires_subquery with the given reasons in turn"""
        calls = []

        def rs(n, _r=list(reasons)):
            calls.append(n)
            return _r.pop(0) if _r else None

        cache = p.new("pipe.cache", "Cache", cols={}, name_to_uuid={}, uuid_to_name={})
        cache.attrs["requires_subquery"] = Native(rs, "requires_subquery")
        t = p.new("pipe.table", "Table", _ast=node, _cache=cache)
        return t, calls

    for label, first, second, with_alias, want in (
        ("the verb fits", None, None, True, "unchanged"),
        ("a subquery is needed and the alias resolves it", "limit", None, True, "marker"),
        ("the same reason remains after the subquery", "limit", "limit", True, "SubqueryError"),
        ("another reason remains after the subquery", "limit", "window", True, "SubqueryError"),
        ("a subquery is needed and there is no alias", "limit", None, False, "SubqueryError"),
    ):
        leaf, alias, mid, top = build(with_alias)
        child_tbl, _c1 = table(mid, [first])
        new_tbl, _ = table(top, [])
        test_calls = []

        def make_test_table(node, _second=second, _tc=test_calls):
            t, calls = table(node, [_second])
            _tc.append((t, calls))
            return t

        p.import_overrides["Table"] = Native(make_test_table, "Table")
        before = ExprWorld.children_struct(top)
        try:
            r = ("value", p.call(f, [new_tbl, child_tbl]))
        except PyRaise as e:
            r = ("raise", e.name)
        finally:
            p.import_overrides.pop("Table", None)
        untouched = ExprWorld.children_struct(top) == before
        if want == "SubqueryError":
            out.append((label, r == ("raise", "SubqueryError") and untouched, f"check_subquery ({label}): {r[0]} {r[1] if r[0] == 'raise' else ''}; documented: SubqueryError (input tree untouched: {untouched})"))
            continue
        if r[0] != "value" or not isinstance(r[1], tuple) or len(r[1]) != 2:
            out.append((label, False, f"check_subquery ({label}) gives {r}"))
            continue
        nt, ct = r[1]
        if want == "unchanged":
            out.append((label, nt is new_tbl and ct is child_tbl and untouched, f"check_subquery ({label}) returns other tables than its inputs or modifies them"))
            continue
        # marker case: a rebuilt chain  Filter' -> Mutate' -> SubqueryMarker -> Alias (original)
        n0 = nt.attrs.get("_ast") if isinstance(nt, Obj) else None
        chain = []
        n = n0
        while isinstance(n, Obj) and n.cls.name != "StubLeaf" and len(chain) < 8:
            chain.append(n)
            n = n.attrs.get("child")
        names = [x.cls.name for x in chain]
        fresh = all(x is not y for x in chain[:2] for y in (top, mid))
        ok = (
            names == ["Filter", "Mutate", "SubqueryMarker", "Alias"] and chain[3] is alias and fresh and untouched and nt is not new_tbl
            and new_tbl.attrs["_ast"] is top and len(test_calls) == 1 and test_calls[0][1] and test_calls[0][1][0] is n0
            and ct is test_calls[0][0]
        )  # fmt: skip
        out.append((label, ok,
                    f"check_subquery ({label}): the returned table's tree is {names} (documented Filter' >> Mutate' >> SubqueryMarker >> the original Alias), "
                    f"copies fresh: {fresh}, input tree untouched: {untouched}, re-test on the rebuilt verb: {bool(test_calls and test_calls[0][1])}"))  # fmt: skip

    def run(new_tbl, child_tbl, second, **kw):
        test_calls = []

        def make_test_table(node, _tc=test_calls):
            t, calls = table(node, [second])
            _tc.append((t, calls))
            return t

        p.import_overrides["Table"] = Native(make_test_table, "Table")
        try:
            return ("value", p.call(f, [new_tbl, child_tbl], kw)), test_calls
        except PyRaise as e:
            return ("raise", e.name), test_calls
        finally:
            p.import_overrides.pop("Table", None)

    # ---- the alias search stops at a Join / SubqueryMarker: an alias below one cannot take the subquery (it would enclose one
    # input of the join only / sit inside an existing subquery)
    for stop in ("Join", "SubqueryMarker"):
        leaf, alias, mid, top = build(True)
        other = p.call(venv["StubLeaf"], ["u", ["z"]])
        if stop == "Join":
            barrier = p.new("tree.verbs", "Join", child=alias, right=other, name="t", on=p.new("tree.col_expr", "LiteralCol", val=True, _dtype=None, _ftype=None), how="inner", validate="m:m")
        else:
            barrier = p.new("tree.verbs", "SubqueryMarker", child=alias, name="t")
        mid.attrs["child"] = barrier
        child_tbl, _ = table(mid, ["limit"])
        new_tbl, _ = table(top, [])
        before = ExprWorld.children_struct(top)
        r, _tc = run(new_tbl, child_tbl, None)
        untouched = ExprWorld.children_struct(top) == before
        label = f"a subquery is needed and the only alias lies below a {stop}"
        out.append((label, r == ("raise", "SubqueryError") and untouched,
                    f"check_subquery ({label}): {r}; documented: SubqueryError - the search for an alias stops at a {stop} (input tree untouched: {untouched})"))  # fmt: skip

    # ---- the right input of a binary verb (join, union): the rebuilt chain replaces `right`, the left input stays
    for cls_, extra in (("Join", dict(on=p.new("tree.col_expr", "LiteralCol", val=True, _dtype=None, _ftype=None), how="inner", validate="m:m")), ("Union", dict(distinct=False))):
        left = p.call(venv["StubLeaf"], ["l", ["z"]])
        leaf, alias, mid, _top = build(True)
        top = p.new("tree.verbs", cls_, child=left, right=mid, name="l", **extra)
        child_tbl, _ = table(mid, ["limit"])
        new_tbl, _ = table(top, [])
        before = ExprWorld.children_struct(top)
        r, tcalls = run(new_tbl, child_tbl, None, is_right=True)
        untouched = ExprWorld.children_struct(top) == before
        label = f"the right input of a {cls_.lower()} needs a subquery and its alias resolves it"
        ok = False
        names = None
        if r[0] == "value" and isinstance(r[1], tuple) and len(r[1]) == 2 and isinstance(r[1][0], Obj):
            n0 = r[1][0].attrs.get("_ast")
            chain, n = [], n0.attrs.get("right") if isinstance(n0, Obj) else None
            while isinstance(n, Obj) and n.cls.name != "StubLeaf" and len(chain) < 8:
                chain.append(n)
                n = n.attrs.get("child")
            names = [x.cls.name for x in chain]
            ok = (
                isinstance(n0, Obj) and n0.cls.name == cls_ and n0 is not top and n0.attrs.get("child") is left and names == ["Mutate", "SubqueryMarker", "Alias"]
                and chain[2] is alias and chain[0] is not mid and untouched and top.attrs["right"] is mid and len(tcalls) == 1 and r[1][1] is tcalls[0][0]
            )  # fmt: skip
        out.append((label, ok,
                    f"check_subquery ({label}, is_right=True) gives {r[0]} {r[1] if r[0] == 'raise' else ''}; right input of the returned {cls_}: {names} "
                    f"(documented: a copy of the {cls_} whose `right` is Mutate' >> SubqueryMarker >> the original Alias, the left input unchanged; input tree untouched: {untouched})"))  # fmt: skip
    return out
