"""Finite-state analysis of the physical-name collision handling in the Polars join.

Before two frames are joined, the Polars compiler renames columns so that (P1) no
physical name occurs in both frames and (P2) every *visible* column keeps its name (the
exported frame must carry the names the table reports).  It does so with a sequence of
``rename_overwritten_cols(names, frame, name_map)`` passes, each of which gives a fresh
(hash-suffixed) name to the columns of one frame whose current name is in ``names``.
A name is classified by what it denotes on each side: left in {none, visible, hidden} x
right in {none, visible, hidden}; visible/visible is excluded by the join verb.  The
passes are interpreted on these 7 classes (state: does the left / right frame still have
a column of that name?), which decides P1 and P2 for every pair of input tables.
"""

from __future__ import annotations

import ast

from .source import dotted, norm


class Undecided(Exception):
    pass


CLASSES = [(l, r) for l in ("none", "vis", "hid") for r in ("none", "vis", "hid") if (l, r) not in (("none", "none"), ("vis", "vis"))]


def _name_set(e, side_maps):
    """which (side, which) a `names` argument denotes: ('left'|'right', 'vis'|'all')"""
    t = norm(e).replace(" ", "")
    for side, (mp, sel) in side_maps.items():
        if t == f"set({mp}.values())":
            return side, "all"
        if t in (f"set({mp}[uid]foruidin{sel})", f"set(({mp}[uid]foruidin{sel}))", f"{{{mp}[uid]foruidin{sel}}}"):
            return side, "vis"
    # generic: comprehension over a select list indexing a map
    for n in ast.walk(e):
        if isinstance(n, (ast.GeneratorExp, ast.SetComp, ast.ListComp)) and len(n.generators) == 1:
            it = norm(n.generators[0].iter)
            el = norm(n.elt)
            for side, (mp, sel) in side_maps.items():
                if it == sel and el.startswith(mp + "["):
                    return side, "vis"
                if it in (f"{mp}.values()",) :
                    return side, "all"
    raise Undecided(f"names argument `{norm(e)[:60]}`")


def analyse(stmts, left=("name_in_df", "select", "df"), right=("right_name_in_df", "right_select", "right_df")):
    """stmts: statements of the Polars Join branch.  returns (passes, problems)"""
    side_maps = {"left": (left[0], left[1]), "right": (right[0], right[1])}
    frames = {left[2]: "left", right[2]: "right"}
    passes = []
    for st in stmts:
        if isinstance(st, ast.Assign) and isinstance(st.value, ast.Call) and dotted(st.value.func) == "rename_overwritten_cols":
            c = st.value
            if len(c.args) < 3:
                raise Undecided("rename_overwritten_cols arity")
            src = _name_set(c.args[0], side_maps)
            tgt = frames.get(norm(c.args[1]))
            if tgt is None:
                raise Undecided(f"frame argument `{norm(c.args[1])}`")
            tgt_map = norm(c.args[2])
            if tgt_map != side_maps[tgt][0]:
                raise Undecided("frame / map of different sides")
            # the results must be bound back to the same frame and map
            tg = st.targets[0]
            rebound = isinstance(tg, ast.Tuple) and [norm(x) for x in tg.elts] == [norm(c.args[1]), tgt_map]
            restrict = None
            for k in c.keywords:
                if k.arg == "names_to_consider":
                    raise Undecided("names_to_consider in join pass")
            passes.append({"from": src, "target": tgt, "rebound": rebound, "node": st})
        if isinstance(st, ast.Expr) and isinstance(st.value, ast.Call) and norm(st.value.func) == f"{left[0]}.update":
            break
    state = {c: {"left": c[0] != "none", "right": c[1] != "none"} for c in CLASSES}
    problems = []
    for p in passes:
        if not p["rebound"]:
            problems.append(f"the result of pass `{norm(p['node'])[:70]}` is not bound back to the frame and map it renamed")
        side, which = p["from"]
        idx = 0 if side == "left" else 1
        names = {c for c in CLASSES if state[c][side] and (which == "all" or c[idx] == "vis")}
        for c in names:
            if state[c][p["target"]]:
                state[c][p["target"]] = False  # renamed to a fresh name
    for c in CLASSES:
        if state[c]["left"] and state[c]["right"]:
            problems.append(f"a name that is {c[0]} on the left and {c[1]} on the right is still present in both frames (P1): the join "
                            "produces a duplicate / `_right`-suffixed column and references resolve to the wrong data")  # fmt: skip
        if c[0] == "vis" and not state[c]["left"]:
            problems.append(f"a visible left column whose name is {c[1]} on the right is renamed (P2): the exported frame carries a hash-suffixed name")
        if c[1] == "vis" and not state[c]["right"]:
            problems.append(f"a visible right column whose name is {c[0]} on the left is renamed (P2): the exported frame carries a hash-suffixed name")
    return passes, problems


# ---------------------------------------------------------------------------------------------------------
# SQL subquery: first-come-keeps-the-name de-duplication


def _visible_source(e, visible_names) -> bool:
    """does expression e range over (a filter of) the visible uids?"""
    if isinstance(e, ast.Starred):
        e = e.value
    t = norm(e)
    if t in visible_names:
        return True
    if isinstance(e, (ast.GeneratorExp, ast.ListComp)) and len(e.generators) == 1:
        return norm(e.generators[0].iter) in visible_names
    if isinstance(e, ast.Call) and norm(e.func) in ("list", "tuple", "iter") and e.args:
        return _visible_source(e.args[0], visible_names)
    return False


def marker_dedup_order(stmts, query_select="query.select"):
    """The SubqueryMarker branch renames columns whose label collides with one already emitted; the first
    column met keeps the plain name.  Visible columns have pairwise different names, so every visible
    column keeps its name iff the loop meets all visible columns before any hidden one.
    returns (loop node, verdict, reason); raises Undecided"""
    # names bound to the visible uid list (query.select before it is reset) or a set of it
    visible_names = set()
    reset = False
    for st in stmts:
        if isinstance(st, ast.Assign) and len(st.targets) == 1 and isinstance(st.targets[0], ast.Name):
            v = norm(st.value)
            if not reset and (v == query_select or v in (f"set({query_select})", f"list({query_select})", f"frozenset({query_select})")):
                visible_names.add(st.targets[0].id)
            elif any(v in (n, f"set({n})", f"list({n})", f"frozenset({n})") for n in visible_names):
                visible_names.add(st.targets[0].id)
        if isinstance(st, ast.Assign) and norm(st.targets[0]) == query_select:
            reset = True  # from here on query.select is no longer the visible list
    loop = None
    for st in stmts:
        if isinstance(st, ast.For) and any(isinstance(n, ast.JoinedStr) for n in ast.walk(st)) and any(
            isinstance(n, ast.Subscript) and isinstance(n.ctx, ast.Store) for n in ast.walk(st)
        ):
            loop = st
            break
    if loop is None:
        raise Undecided("de-duplication loop of the SubqueryMarker branch not found")
    if not visible_names:
        return loop, False, "the visible column list (query.select before it is reset) is not kept, so the loop cannot order by it"
    it = loop.iter

    # the iterated value may be a local built from the ordered source by order-preserving steps (a comprehension with
    # filters / projections over it, list(..), a plain alias): follow them back
    def _def_of(name):
        vals = [st.value for st in stmts if isinstance(st, ast.Assign) and len(st.targets) == 1 and isinstance(st.targets[0], ast.Name) and st.targets[0].id == name]
        return vals[-1] if len(vals) == 1 else None

    for _ in range(6):
        if isinstance(it, ast.Name) and it.id not in visible_names:
            d = _def_of(it.id)
            if d is None:
                break
            it = d
        elif isinstance(it, (ast.ListComp, ast.GeneratorExp)) and len(it.generators) == 1:
            it = it.generators[0].iter
        elif isinstance(it, ast.Call) and norm(it.func) in ("list", "tuple", "iter") and len(it.args) == 1:
            it = it.args[0]
        elif isinstance(it, ast.Call) and isinstance(it.func, ast.Attribute) and it.func.attr in ("keys", "items") and not it.args and isinstance(it.func.value, ast.Name) and _def_of(it.func.value.id) is not None:
            it = _def_of(it.func.value.id)
        else:
            break
    # idiom 1: sorted(X, key=lambda u: u not in V)
    if isinstance(it, ast.Call) and norm(it.func) == "sorted":
        key = next((k.value for k in it.keywords if k.arg == "key"), None)
        if isinstance(key, ast.Lambda):
            b = key.body
            arg = key.args.args[0].arg if key.args.args else None
            if isinstance(b, ast.Compare) and len(b.ops) == 1 and isinstance(b.ops[0], ast.NotIn) and norm(b.left) == arg and norm(b.comparators[0]) in visible_names:
                rev = next((k.value for k in it.keywords if k.arg == "reverse"), None)
                if rev is None or (isinstance(rev, ast.Constant) and not rev.value):
                    return loop, True, "stable sort: visible columns first"
            if isinstance(b, ast.Compare) and len(b.ops) == 1 and isinstance(b.ops[0], ast.In) and norm(b.left) == arg and norm(b.comparators[0]) in visible_names:
                rev = next((k.value for k in it.keywords if k.arg == "reverse"), None)
                if isinstance(rev, ast.Constant) and rev.value is True:
                    return loop, True, "stable sort (reverse): visible columns first"
        return loop, False, f"sorted by `{norm(key)[:60] if key is not None else 'natural order'}`, which does not put the visible columns first"
    # idiom 2: concatenation / chain whose first part ranges over the visible list
    parts = None
    if isinstance(it, (ast.List, ast.Tuple)):
        parts = it.elts
    elif isinstance(it, ast.Call) and (dotted(it.func) or "").endswith("chain"):
        parts = it.args
    elif isinstance(it, ast.BinOp) and isinstance(it.op, ast.Add):
        parts = [it.left, it.right]
    if parts:
        if _visible_source(parts[0], visible_names):
            return loop, True, "visible columns are iterated first"
        return loop, False, f"the first part `{norm(parts[0])[:50]}` does not range over the visible columns"
    return loop, False, (
        f"it iterates `{norm(it)[:50]}` in that container's insertion order (final selection / order of reference / creation), "
        "which can meet a hidden column before the visible column of the same name"
    )
