"""End-to-end static simulation of a pipeline on the SQL side: verbs -> AST -> Cache -> subquery markers -> SqlImpl.compile_ast
-> compile_query, all interpreted from source (program.Program) on *real* node and expression classes of the library,
SQLAlchemy symbolic.

The verb sequences and the reference automaton are those of cachesim (the typestate model check of the cache); here the
tree that the sequence builds is additionally compiled, and the statement the compiler produces is read back clause by
clause and compared with what the reference says the running SELECT (and every closed subquery) must contain:

  selected columns (names, order) - predicates in WHERE vs HAVING - GROUP BY keys - ORDER BY keys by priority - LIMIT / OFFSET

An internal error (AssertionError, KeyError, ...) while compiling an accepted pipeline is reported as well.
"""

from __future__ import annotations

import ast
import itertools

from .cachesim import AGG, EW, WIN, Explorer, RCol, Ref, Sim
from .catalogue import DT, _ModuleNS
from .interp import Native, Obj, PyRaise, SymbolicBranch, SymNS, Term, Var  # noqa: F401
from .source import AnalysisError

LEAF_SRC = '''
class StubSqlLeaf(TableImpl):
    backend_name = "stub"

    def __init__(self, name, schema, table):
        super().__init__(name, schema)
        self.table = table

    def _clone(self):
        cloned = StubSqlLeaf(self.name, {n: c._dtype for n, c in self.cols.items()}, self.table)
        return cloned, {self: cloned}, {self.cols[n]._uuid: cloned.cols[n]._uuid for n in self.cols}

    def iter_subtree_postorder(self):
        yield self

    def iter_subtree_preorder(self):
        yield self
'''
LABEL_SRC = '''
class Label:
    def __init__(self, name, element):
        self.name = name
        self.element = element
class Column:
    def __init__(self, name):
        self.name = name
'''


class RealWorld:
    """the interface of cachesim.CacheWorld on the library's own classes"""

    def __init__(self, repo, types_env):
        from .program import Program

        self.repo = repo
        self.p = Program(repo, types_env, primary="backend.sql")
        self.sqlmod = repo.mod("backend.sql")
        self.env = self.p.env_of(self.sqlmod)
        for c in ast.parse(LEAF_SRC).body + ast.parse(LABEL_SRC).body:
            self.env[c.name] = self.p.make_class(c, self.env)
        self.F = self.p.env_of(repo.mod("tree.col_expr"))["Ftype"]
        self.ft = {EW: self.F.ELEMENT_WISE, AGG: self.F.AGGREGATE, WIN: self.F.WINDOW}
        self.I = DT("Int64")
        self.uid = itertools.count()
        self.tags = itertools.count()
        self.cache_cls = self.p.cls("pipe.cache", "Cache")
        # the expression compiler and SQLAlchemy constructors the verb branches call
        self.sqa = self._sqa_ns()
        self.env["sqa"] = self.sqa
        self.env["dedup_order_by"] = Native(lambda xs: list(xs), "dedup_order_by")

    # ---- cachesim.CacheWorld interface ----------------------------------------------------------------------------------
    def fresh(self, prefix="u"):
        return f"{prefix}{next(self.uid)}"

    def obj(self, cls, **kw):
        if cls in ("Col",):
            raise AnalysisError("pipesim: columns come from the cache")
        child = kw.get("child")
        name = child.attrs.get("name") if isinstance(child, Obj) else None
        # what the verb functions do before they build the node (preprocess_arg): the function type of every expression is
        # determined in the verb's context (aggregates are window functions in mutate) and cached on the expression
        for key in ("values", "predicates"):
            for e in kw.get(key) or []:
                if isinstance(e, Obj) and e.cls.name == "ColFn" and e.attrs.get("_ftype") is None:
                    self.p.call(self.p.method(e, "ftype"), [], {"agg_is_window": cls == "Mutate"})
        return self.p.new("tree.verbs", cls, name=name, **kw)

    def fn(self, name, ftype, *args):
        op = Obj.__new__(Obj)
        op.cls = self.env["Label"]
        op.attrs = {"name": name, "ftype": self.ft[ftype], "return_type": Native(lambda arg_types: self.I, "op.return_type"), "context_kwargs": []}
        const = ftype == EW and bool(args) and all(isinstance(a.attrs.get("_dtype"), DT) and a.attrs["_dtype"].cls == "Const" for a in args)
        e = self.p.new("tree.col_expr", "ColFn", op=op, args=list(args), context_kwargs={}, _dtype=DT("Const", self.I) if const else self.I, _ftype=None, _fn_id="fn")
        e.attrs["_tag"] = f"E{next(self.tags)}:{name}"
        return e

    def lit(self, v):
        e = self.p.new("tree.col_expr", "LiteralCol", val=v, _dtype=DT("Const", self.I), _ftype=self.F.ELEMENT_WISE)
        e.attrs["_tag"] = f"L{next(self.tags)}"
        return e

    def order(self, e):
        return self.p.new("tree.col_expr", "Order", order_by=e, descending=False, nulls_last=None)

    def source(self, name, col_names, backend="sqlite"):
        table = self.p.call(self.env["Label"], [f"T:{name}", None])
        table.attrs["columns"] = [self.p.call(self.env["Column"], [n]) for n in col_names]
        table.attrs["select"] = Native(lambda _n=name: Term("select", (), {}, Var(f"T:{_n}")), "table.select")
        table.attrs["alias"] = Native(lambda new_name, _t=table: _t, "table.alias")
        leaf = self.p.call(self.env["StubSqlLeaf"], [name, {n: self.I for n in col_names}, table])
        # stable identities (`t.a`) instead of generated ones
        for n, c in leaf.attrs["cols"].items():
            c.attrs["_uuid"] = f"{name}.{n}"
        cache = self.p.call(self.cache_cls.methods["from_ast"], [leaf])
        be = Obj.__new__(Obj)
        be.cls, be.attrs = self.env["Label"], {"backend_name": backend}
        cache.attrs["backend"] = be
        return leaf, cache

    def update(self, cache, node, right_cache=None):
        kw = {"right_cache": right_cache} if right_cache is not None else {}
        return self.p.call(self.p.method(cache, "update"), [node], kw)

    def requires_subquery(self, cache, node):
        return self.p.call(self.p.method(cache, "requires_subquery"), [node])

    # ---- compilation ---------------------------------------------------------------------------------------------------------
    def _sqa_ns(self):
        world = self

        class _SqaNS(_ModuleNS):
            def __getattr__(self_, k):
                if k.startswith("__"):
                    raise AttributeError(k)
                return SymNS(f"sqa.{k}")

        return _SqaNS({"label": Native(lambda name, element=None, **kw: world.p.call(world.env["Label"], [name, element]), "sqa.label")})

    def impl_cls(self):
        o = Obj(self.env["SqlImpl"])

        def compile_col_expr(expr, sqa_expr, **kw):
            if isinstance(expr, Obj) and expr.cls.name == "Col":
                return sqa_expr[expr.attrs["_uuid"]]
            return Var(expr.attrs.get("_tag", "E?"))

        def compile_order(order, sqa_expr):
            e = order.attrs["order_by"]
            return Var("O:" + (sqa_expr[e.attrs["_uuid"]].attrs["name"] if e.cls.name == "Col" else e.attrs.get("_tag", "?")))

        o.attrs.update({
            "compile_col_expr": Native(compile_col_expr, "cls.compile_col_expr"), "compile_order": Native(compile_order, "cls.compile_order"),
            "sqa_type": Native(lambda t: Var("ty"), "cls.sqa_type"),
        })  # fmt: skip
        return o

    def compile(self, node):
        """-> the select term of the whole pipeline"""
        cls_ = self.impl_cls()
        f = self.env["SqlImpl"].methods["compile_ast"]
        clone = self.p.call(self.p.method(node, "clone"), [])
        # SqlImpl.build_select: final selection from the cache of the tree, aliases for the leaves, compile_ast, compile_query
        sel = self.p.call(self.env["SqlImpl"].methods["build_select"].bind(cls_), [clone])
        self.last_clone = clone
        return sel, None, None

    def recompile(self):
        """the tree of the last compile(), compiled once more (a compiler that rewrites the tree it is given answers differently)"""
        return self.p.call(self.env["SqlImpl"].methods["build_select"].bind(self.impl_cls()), [self.last_clone])


def read_select(t):
    """clauses of a `table.select().select_from(..).where(..)...` term chain -> dict, and the FROM term"""
    out = {"where": [], "having": [], "group": None, "order": [], "limit": None, "offset": None, "select": None}
    frm = None
    while isinstance(t, Term) and not isinstance(t, Var):
        n = t.fn
        if n == "where":
            out["where"] = list(t.args) + out["where"]
        elif n == "having":
            out["having"] = list(t.args) + out["having"]
        elif n == "group_by":
            out["group"] = list(t.args)
        elif n == "order_by":
            out["order"] = list(t.args)
        elif n == "limit":
            out["limit"] = t.args[0]
        elif n == "offset":
            out["offset"] = t.args[0]
        elif n == "with_only_columns":
            out["select"] = list(t.args)
        elif n == "select_from":
            frm = t.args[0]
        elif n == "select":
            break  # `table.select()`: the start of the chain
        else:
            raise AnalysisError(f"pipesim: unexpected clause builder `{n}` in the compiled statement")
        t = t.recv
    return out, frm


def _name(x):
    if isinstance(x, Obj):
        return x.attrs.get("name")
    return repr(x)


def _tags(xs):
    return [x.name if isinstance(x, Var) else _name(x) for x in xs]


class CompileExplorer(Explorer):
    """cachesim.Explorer on real classes; every reached state is additionally compiled and its statement compared"""

    def __init__(self, world, depth=2, unary=None):
        from .cachesim import UNARY

        super().__init__(world, depth=depth, backend="sqlite", unary=unary or (UNARY + ("arrange_last", "slice2", "slice3", "summ_over")), binary=())
        self.compiled = 0

    def signature(self, sim):
        # two sequences are only merged when the statement they must compile to has the same shape as well
        sg = sim.ref.seg
        pos = {u: i for i, u in enumerate(sim.ref.cols)}

        def shape(d):
            return (len(d["where"]), len(d["having"]), None if d["group"] is None else len(d["group"]), tuple(pos.get(u, -1) for u in d["order"]), d["limit"], d["offset"])

        return (super().signature(sim), shape(sg), tuple(shape(c) for c in sim.ref.closed))

    def binaries(self, sim, seq):
        if not seq:
            return
        self.check_compile(sim, seq)

    def check_compile(self, sim, seq):
        w = self.w
        try:
            sel, query, sqa_expr = w.compile(sim.node)
        except PyRaise as e:
            self.add("compile-error", seq[-1], e.name, seq, f"`{' >> '.join(seq)}` is accepted by the verbs but SqlImpl.compile_ast raises {e.name}: {e.msg}")
            return
        self.compiled += 1
        ref = sim.ref
        expected = list(ref.closed) + [dict(ref.seg, select=list(ref.names()))]

        def nested(t):
            # statements from the outermost inwards
            out = []
            while True:
                clauses, frm = read_select(t)
                out.append(clauses)
                if isinstance(frm, Term) and frm.fn == "subquery":
                    t = frm.recv
                    continue
                break
            out.reverse()
            return out

        stmts = nested(sel)
        # compiling the same tree a second time gives the same statement: the compiler does not consume / rewrite the tree it
        # is given (a subtree is compiled more than once when a union re-orders its right operand)
        try:
            again = nested(w.recompile())

            def shape(ss):
                return [(_tags(d["where"]), _tags(d["having"]), None if d["group"] is None else [_name(x) for x in d["group"]],
                         [repr(x) for x in d["order"]], d["limit"], d["offset"], [_name(x) for x in (d["select"] or [])]) for d in ss]  # fmt: skip

            if shape(again) != shape(stmts):
                a, b = shape(stmts), shape(again)
                diff = next((f"SELECT #{i + 1}: {x} then {y}" for i, (x, y) in enumerate(zip(a, b)) if x != y), f"{len(a)} then {len(b)} nested SELECTs")
                self.add("recompile", seq[-1], "second compilation differs", seq,
                         f"`{' >> '.join(seq)}`: compiling the same tree a second time gives another statement ({diff[:200]}): SqlImpl.compile_ast modifies the tree it compiles")  # fmt: skip
        except PyRaise as e:
            self.add("recompile", seq[-1], f"second compilation raises {e.name}", seq,
                     f"`{' >> '.join(seq)}`: compiling the same tree a second time raises {e.name}: {e.msg} - SqlImpl.compile_ast modifies the tree it compiles")  # fmt: skip
        if len(stmts) != len(expected):
            self.add("statement-shape", seq[-1], "subqueries", seq, f"`{' >> '.join(seq)}` compiles to {len(stmts)} nested SELECTs, the verbs' meaning needs {len(expected)}")
            return
        name_of = {u: c.name for u, c in ref.cols.items()}
        for i, (got, want) in enumerate(zip(stmts, expected)):
            where = f"SELECT #{i + 1} of {len(stmts)} of `{' >> '.join(seq)}`"
            probs = []
            if _tags(got["where"]) != want["where"]:
                probs.append(f"WHERE holds {_tags(got['where'])}, documented {want['where']}")
            if _tags(got["having"]) != want["having"]:
                probs.append(f"HAVING holds {_tags(got['having'])}, documented {want['having']} (a filter after summarize acts on the aggregated rows)")
            if want["group"] is not None or got["group"] is not None:
                g = None if got["group"] is None else len(got["group"])
                wn = None if not want["group"] else len(want["group"])
                if (g or None) != wn:
                    probs.append(f"GROUP BY has {g} keys, documented {wn}")
            if (got["limit"], got["offset"] or 0) != (want["limit"], (want["offset"] or 0) if want["limit"] is not None else 0):
                probs.append(f"LIMIT / OFFSET are {got['limit']} / {got['offset']}, documented {want['limit']} / {want['offset']}")
            go = [x.name[2:] if isinstance(x, Var) and x.name.startswith("O:") else repr(x) for x in got["order"]]
            wo = [name_of.get(u, "?") for u in want["order"]]
            if go != wo and i == len(stmts) - 1:
                probs.append(f"ORDER BY is {go}, documented {wo} (every arrange since the last summarize, latest first)")
            elif len(go) != len(wo):
                probs.append(f"ORDER BY has {len(go)} keys, documented {len(wo)}")
            if want.get("select") is not None and [_name(x) for x in (got["select"] or [])] != want["select"]:
                probs.append(f"the select list is {[_name(x) for x in (got['select'] or [])]}, documented {want['select']}")
            for pr in probs:
                self.add("clause", seq[-1], pr.split(",")[0].split(" holds")[0].split(" has")[0].split(" are")[0].split(" is ")[0], seq, f"{where}: {pr}")


# =====================================================================================================================
# rule front end
# =====================================================================================================================
_runs: dict = {}

CLASSES = {
    "compile-error": lambda f: f.issue == "compile-error",
    "placement": lambda f: f.issue == "clause" and f.reason.split()[0] in ("WHERE", "HAVING", "GROUP"),
    "limit": lambda f: f.issue == "clause" and f.reason.startswith("LIMIT"),
    "order": lambda f: f.issue == "clause" and f.reason.startswith("ORDER"),
    "select": lambda f: f.issue == "clause" and f.reason.startswith("the select list"),
    "shape": lambda f: f.issue == "statement-shape",
    "recompile": lambda f: f.issue == "recompile",
}


def explore(chk, m, depth):
    from .rules.c17 import m_types_env

    key = (id(chk.repo), depth)
    if key not in _runs:
        _runs[key] = CompileExplorer(RealWorld(chk.repo, m_types_env(m)), depth=depth).run()
    return _runs[key]


def report(chk, m, rule, classes, depth_quick=2, depth_thorough=3, floor=100):
    """obligations from the end-to-end exploration, restricted to the given finding classes"""
    sql = chk.repo.mod("backend.sql")
    f = sql.func("SqlImpl.compile_ast")
    depth = depth_thorough if chk.tier == "thorough" else depth_quick
    try:
        ex = explore(chk, m, depth)
    except (AnalysisError, SymbolicBranch) as e:
        chk.undecided.append(f"{rule}: the pipeline could not be interpreted end to end ({str(e)[:160]})")
        return False
    n = 0
    for fd in ex.findings.values():
        if any(CLASSES[c](fd) for c in classes):
            n += 1
            if n <= 40:
                chk.ob(rule, sql, f, f"{fd.issue}: {' >> '.join(fd.seq)}: {fd.reason}"[:200], False, fd.detail)
    chk.ok(rule, sql, f, f"{ex.compiled} verb sequences (up to {depth} verbs, subqueries inserted where the guards ask for them) compiled by the interpreted "
           f"SqlImpl.build_select: {', '.join(classes)} agree with the reference")  # fmt: skip
    chk.floor(rule, "pipelines compiled end to end", ex.compiled, floor)
    chk.extra_cov.setdefault("pipeline_simulation", {}).update({"depth": depth, "compiled": ex.compiled, **ex.stats})
    return True


def alias_name_scenarios(w: RealWorld):
    """`create_aliases` interpreted on join trees with several occurrences of one source table: every occurrence gets its own SQL
    alias, and the names do not depend on queries built before.  -> list of (description, ok, detail)"""
    p = w.p
    f = w.env["create_aliases"]
    out = []

    def leaf(log):
        src, _cache = w.source("t", ["a"])
        tbl = src.attrs["table"]
        tbl.attrs["name"] = "t"

        def alias(new_name, _t=tbl, _log=log):
            _log.append(new_name)
            return _t

        tbl.attrs["alias"] = Native(alias, "table.alias")
        return src

    def tree(shape, log):
        lit = w.lit(True)
        if shape == "left-deep":
            n = leaf(log)
            for _ in range(2):
                n = w.obj("Join", child=n, right=leaf(log), on=lit, how="inner", validate="m:m")
            return n
        if shape == "right-deep":
            inner = w.obj("Join", child=leaf(log), right=leaf(log), on=lit, how="inner", validate="m:m")
            return w.obj("Join", child=leaf(log), right=inner, on=lit, how="inner", validate="m:m")
        inner = w.obj("Union", child=leaf(log), right=leaf(log), distinct=False)
        return w.obj("Join", child=inner, right=w.obj("Filter", child=leaf(log), predicates=[lit]), on=lit, how="inner", validate="m:m")

    nparams = len(f.node.args.args)
    has_default = len(f.node.args.defaults) >= 1
    for shape in ("left-deep", "right-deep", "union below a join"):
        log = []
        p.call(f, [tree(shape, log), {}])
        out.append((f"three occurrences of one table, {shape}: pairwise different aliases", len(log) == 3 and len(set(log)) == 3,
                    f"create_aliases on a {shape} tree with three occurrences of table `t` gives the aliases {log}: two FROM items with the same name "
                    "make every column of them ambiguous"))  # fmt: skip
        first = list(log)
        # a second statement built afterwards gets the same names (no state survives a build)
        log2 = []
        try:
            p.call(f, [tree(shape, log2)] + ([] if has_default else [{}]))
        except PyRaise as e:
            out.append((f"{shape}: second build", False, f"create_aliases raises {e.name}: {e.msg}"))
            continue
        out.append((f"{shape}: a second build gets the same aliases", log2 == first,
                    f"the second statement built in one process gets the aliases {log2}, the first one {first}: the text of a query depends on the queries "
                    "built before it (an occurrence counter survives between builds)"))  # fmt: skip
    return out


def split_cond_scenarios(w: RealWorld):
    """`split_join_cond` interpreted: a conjunction given as `a & b & c`, as `pdt.all(a, b, c)` or nested splits into all of its
    predicates.  -> list of (description, ok, detail)"""
    p = w.p
    tim = p.repo.mod("backend.table_impl")
    tenv = p.env_of(tim)
    from .polsim import _OpsNS

    ops = _OpsNS()
    tenv["ops"] = ops
    f = tenv["split_join_cond"]
    out = []

    def fn(op, *args):
        e = p.new("tree.col_expr", "ColFn", op=op, args=list(args), context_kwargs={}, _dtype=None, _ftype=None, _fn_id="fn")
        return e

    preds = [fn(ops.equal, w.lit(i), w.lit(i)) for i in range(4)]
    cases = [
        ("a & b", fn(ops.bool_and, preds[0], preds[1]), 2),
        ("a & b & c", fn(ops.bool_and, fn(ops.bool_and, preds[0], preds[1]), preds[2]), 3),
        ("pdt.all(a, b)", fn(ops.horizontal_all, preds[0], preds[1]), 2),
        ("pdt.all(a, b, c)", fn(ops.horizontal_all, preds[0], preds[1], preds[2]), 3),
        ("pdt.all(a, b & c, d)", fn(ops.horizontal_all, preds[0], fn(ops.bool_and, preds[1], preds[2]), preds[3]), 4),
        ("a single predicate", preds[0], 1),
    ]
    for label, cond, n in cases:
        try:
            r = p.call(f, [cond])
            got = list(r)
            ok = len(got) == n and all(any(g is q for q in preds) for g in got) and len({id(g) for g in got}) == n
            detail = f"{len(got)} predicates"
        except PyRaise as e:
            ok, detail = False, f"raises {e.name}: {e.msg}"
        out.append((f"split_join_cond({label}) -> {n} predicates", ok,
                    f"the join condition `{label}` is split into {detail}, it has {n}: a predicate that is dropped is not part of the join (too many rows), "
                    "and the equality-only check of a full join does not see it"))  # fmt: skip
    return out


def compile_query_scenarios(w: RealWorld):
    """`SqlImpl.compile_query` interpreted on Query states with one clause field set at a time (and all together): the statement
    carries exactly the clauses whose field is set, each with the field's entries in their order.
    -> list of (description, ok, detail, clause)"""
    p = w.p
    cls_ = w.impl_cls()
    f = w.env["SqlImpl"].methods["compile_query"].bind(cls_)
    uuids = ["t.a", "t.b", "t.c"]

    def fresh_state():
        table = p.call(w.env["Label"], ["T:t", None])
        table.attrs["select"] = Native(lambda: Term("select", (), {}, Var("T:t")), "table.select")
        sqa_expr = {u: p.call(w.env["Label"], [u.split(".")[1], None]) for u in uuids}
        return table, sqa_expr

    def pred(i):
        e = w.fn(f"p{i}", EW)
        return e

    def order(u):
        c = p.new("tree.col_expr", "Col", name=u.split(".")[1], _ast=None, _uuid=u, _dtype=w.I, _ftype=w.F.ELEMENT_WISE)
        return w.order(c)

    cases = [
        ("nothing but the select list", {}),
        ("where", {"where": 2}),
        ("group_by", {"group_by": ["t.b", "t.a"]}),
        ("having", {"having": 2}),
        ("order_by", {"order_by": ["t.c", "t.a"]}),
        ("limit", {"limit": 5}),
        ("limit 0", {"limit": 0}),
        ("limit and offset", {"limit": 5, "offset": 2}),
        ("every clause", {"where": 1, "group_by": ["t.a"], "having": 1, "order_by": ["t.a", "t.b"], "limit": 3, "offset": 1}),
    ]
    out = []
    for label, spec in cases:
        table, sqa_expr = fresh_state()
        wh = [pred(i) for i in range(spec.get("where", 0))]
        hv = [pred(10 + i) for i in range(spec.get("having", 0))]
        # (built by the class's own constructor: fields this scenario does not mention get their declared defaults)
        q = p.call(w.env["Query"], [["t.c", "t.a"]], dict(where=wh, having=hv, group_by=list(spec.get("group_by", [])),
                   order_by=[order(u) for u in spec.get("order_by", [])], limit=spec.get("limit"), offset=spec.get("offset")))  # fmt: skip
        if spec.get("group_by") or hv:
            if "is_aggregated" in {n for n, _ in w.env["Query"].fields}:
                q.attrs["is_aggregated"] = True
        want = {
            "where": [e.attrs["_tag"] for e in wh], "having": [e.attrs["_tag"] for e in hv],
            "group": [u.split(".")[1] for u in spec.get("group_by", [])] or None,
            "order": [u.split(".")[1] for u in spec.get("order_by", [])],
            "limit": spec.get("limit"), "offset": (spec.get("offset") or None) if spec.get("limit") is not None else None,
            "select": ["c", "a"],
        }  # fmt: skip
        try:
            sel = p.call(f, [table, q, sqa_expr])
            got, frm = read_select(sel)
        except PyRaise as e:
            out.append((f"compile_query with {label}", False, f"SqlImpl.compile_query raises {e.name}: {e.msg} for a query state with {label}", "error"))
            continue
        norm = {
            "where": _tags(got["where"]), "having": _tags(got["having"]),
            "group": ([_name(x) for x in got["group"]] or None) if got["group"] is not None else None,
            "order": [x.name[2:] if isinstance(x, Var) and x.name.startswith("O:") else repr(x) for x in got["order"]],
            "limit": got["limit"], "offset": got["offset"] or None,
            "select": [_name(x) for x in (got["select"] or [])],
        }  # fmt: skip
        for clause in ("where", "having", "group", "order", "limit", "offset", "select"):
            ok = norm[clause] == want[clause]
            out.append((f"compile_query with {label}: {clause} = {want[clause]}", ok,
                        f"for a query state with {label} set compile_query renders {clause.upper()} as {norm[clause]}, the state says {want[clause]}"
                        + (" (ORDER BY keys in priority order)" if clause == "order" else ""), clause))  # fmt: skip
    return out


_cq_runs: dict = {}


def report_compile_query(chk, m, rule, clauses, floor=8):
    """obligations from the interpreted `SqlImpl.compile_query`, restricted to the given clauses; False when undecided"""
    from .rules.c17 import m_types_env

    sql = chk.repo.mod("backend.sql")
    cq = sql.func("SqlImpl.compile_query")
    key = id(chk.repo)
    if key not in _cq_runs:
        try:
            _cq_runs[key] = compile_query_scenarios(RealWorld(chk.repo, m_types_env(m)))
        except (AnalysisError, SymbolicBranch) as e:
            _cq_runs[key] = e
    res = _cq_runs[key]
    if isinstance(res, Exception):
        chk.undecided.append(f"{rule}: SqlImpl.compile_query could not be interpreted ({str(res)[:160]})")
        return False
    n = 0
    for desc, ok, detail, clause in res:
        if clause in clauses or clause == "error":
            n += 1
            chk.ob(rule, sql, cq, desc, ok, detail)
    chk.floor(rule, "compile_query clause valuations", n, floor)
    return True


def from_ast_scenarios(w: RealWorld):
    """`Cache.from_ast` interpreted: (a) the cache of a source table lists the table's columns, in order, in both name maps and in
    the scope, with no grouping; (b) for a tree it equals the fold of `Cache.update` over the verbs, with the cache of the right
    subtree handed to verbs that have one.  -> list of (description, ok, detail)"""
    p = w.p
    out = []
    fa = w.cache_cls.methods["from_ast"]
    leaf, cache = w.source("t", ["a", "b", "c"])
    A = cache.attrs
    uu = [f"t.{n}" for n in "abc"]
    facts = [
        ("name_to_uuid lists the columns in table order", list(A["name_to_uuid"].items()) == [(n, f"t.{n}") for n in "abc"], f"name_to_uuid = {dict(A['name_to_uuid'])}"),
        ("uuid_to_name is its inverse, same order", list(A["uuid_to_name"].items()) == [(f"t.{n}", n) for n in "abc"], f"uuid_to_name = {dict(A['uuid_to_name'])}"),
        ("the scope `cols` holds the table's own Col objects by identity", list(A["cols"]) == uu and all(A["cols"][f"t.{n}"] is leaf.attrs["cols"][n] for n in "abc"), f"cols keys = {list(A['cols'])}"),
        ("no grouping", list(A["partition_by"]) == [], f"partition_by = {A['partition_by']}"),
        ("derived from the table itself", set(A["derived_from"]) == {leaf}, f"derived_from has {len(A['derived_from'])} entries"),
    ]  # fmt: skip
    for d, ok, det in facts:
        out.append((f"source table cache: {d}", ok, f"Cache.from_ast of a source table with columns a, b, c gives {det}: {d} does not hold"))

    def snap(c):
        a = c.attrs
        return {
            "name_to_uuid": list(a["name_to_uuid"].items()), "uuid_to_name": list(a["uuid_to_name"].items()), "cols": list(a["cols"]),
            "partition_by": list(a["partition_by"]), "limit": a.get("limit"), "is_aggregated": a.get("is_aggregated"), "is_filtered": a.get("is_filtered"),
            "derived_from": len(a["derived_from"]),
        }  # fmt: skip

    def compare(label, node, want):
        try:
            got = p.call(fa, [node])
        except PyRaise as e:
            out.append((f"from_ast({label})", False, f"Cache.from_ast raises {e.name}: {e.msg} on the tree {label}"))
            return
        g, x = snap(got), snap(want)
        diff = {k: (g[k], x[k]) for k in g if g[k] != x[k]}
        out.append((f"from_ast({label}) = fold of update over the tree", not diff,
                    f"Cache.from_ast on {label} differs from updating the cache verb by verb in {sorted(diff)}: {str(diff)[:200]}"))  # fmt: skip

    cols = A["cols"]
    n1 = w.obj("Select", child=leaf, select=[cols["t.c"], cols["t.a"]])
    c1 = w.update(cache, n1)
    compare("t >> select(c, a)", n1, c1)
    n2 = w.obj("Rename", child=n1, name_map={"a": "x"})
    c2 = w.update(c1, n2)
    compare("t >> select(c, a) >> rename(a -> x)", n2, c2)
    n3 = w.obj("Filter", child=n2, predicates=[w.fn("p", EW)])
    c3 = w.update(c2, n3)
    compare("t >> select >> rename >> filter", n3, c3)
    leaf2, cache2 = w.source("o", ["z"])
    r1 = w.obj("Filter", child=leaf2, predicates=[w.fn("q", EW)])
    rc1 = w.update(cache2, r1)
    for how in ("inner", "left"):
        nj = w.obj("Join", child=n2, right=r1, on=w.lit(True), how=how, validate="m:m")
        compare(f"(t >> select >> rename) >> join(o >> filter, how={how})", nj, w.update(c2, nj, right_cache=rc1))
    leaf3, cache3 = w.source("v", ["c", "x"])
    nu = w.obj("Union", child=n2, right=leaf3, distinct=False)
    compare("(t >> select >> rename) >> union(v)", nu, w.update(c2, nu, right_cache=cache3))
    nj2 = w.obj("Join", child=leaf2, right=n3, on=w.lit(True), how="inner", validate="m:m")
    compare("o >> join(t >> select >> rename >> filter)", nj2, w.update(cache2, nj2, right_cache=c3))
    return out


def grouping_injection_scenarios(w: RealWorld):
    """`preprocess_arg` interpreted on a grouped table (two grouping columns) for functions of every function type, with and
    without an explicit partition_by=, in window context (every verb but summarize) and in aggregate context: the pending
    grouping becomes the function's partition exactly for the non-element-wise functions that carry none, in window context; the
    expression the caller passed is not modified.  -> list of (description, ok, detail)"""
    p = w.p
    out = []
    venv = p.env_of(p.repo.mod("pipe.verbs"))
    pa = venv["preprocess_arg"]
    for ft, ftname in ((EW, "element-wise"), (AGG, "aggregate"), (WIN, "window")):
        for explicit in (False, True):
            for aiw in (True, False):
                if ft == WIN and not aiw:
                    continue  # (a window function is refused by summarize before it gets here)
                leaf, cache = w.source("t", ["a", "g", "h", "k"])
                cache.attrs["partition_by"] = ["t.h", "t.g"]
                tbl = p.new("pipe.table", "Table", _ast=leaf, _cache=cache)
                cols = cache.attrs["cols"]
                e = w.fn("f", ft, cols["t.a"])
                if explicit:
                    e.attrs["context_kwargs"] = {"partition_by": [cols["t.k"]]}
                inner = w.fn("g", ft, cols["t.a"]) if ft == EW else None
                if inner is not None:
                    e.attrs["args"] = [inner]
                before = dict(e.attrs["context_kwargs"])
                label = f"{ftname} function, {'explicit partition_by=' if explicit else 'no partition_by='}, {'window context' if aiw else 'aggregate context (summarize)'}"
                try:
                    r = p.call(pa, [e, tbl], {"agg_is_window": aiw})
                except PyRaise as ex:
                    out.append((label, False, f"preprocess_arg raises {ex.name}: {ex.msg} for a {label}"))
                    continue
                got = r.attrs["context_kwargs"].get("partition_by") if isinstance(r, Obj) else None
                got_ids = None if got is None else [c.attrs.get("_uuid") for c in got]
                if explicit:
                    want = ["t.k"]
                elif ft != EW and aiw:
                    want = ["t.h", "t.g"]
                else:
                    want = None
                out.append((f"{label}: partition = {want}", got_ids == want,
                            f"preprocess_arg on a table grouped by (h, g) gives a {label} the partition {got_ids}, documented {want}: "
                            "window functions / aggregates in mutate are evaluated per group of the enclosing group_by, an explicit partition_by= wins, "
                            "summarize aggregates over the groups themselves"))  # fmt: skip
                out.append((f"{label}: the caller's expression is untouched", e.attrs["context_kwargs"] == before and r is not e,
                            f"preprocess_arg modifies the expression object it was given ({label}): context_kwargs {before} -> {e.attrs['context_kwargs']}"))  # fmt: skip
    return out


def over_scenarios(w: RealWorld):
    """the ColFn branch of `SqlImpl.compile_col_expr` interpreted for window functions: the OVER clause is built from the
    expression's own `partition_by=` (PARTITION BY) and `arrange=` (ORDER BY) - not swapped, not dropped.
    -> list of (description, ok, detail)"""
    p = w.p
    out = []
    cls_ = Obj(w.env["SqlImpl"])
    from .polsim import _OpsNS

    w.env["ops"] = _OpsNS()  # `ops.<name>`: opaque operator objects compared by identity

    def get_impl(op, sig):
        return Native(lambda *a, **k: Term("impl:" + str(op.attrs.get("name")), a), "impl")

    def compile_order(order, sqa_expr):
        e = order.attrs["order_by"]
        return Var("O:" + str(e.attrs.get("name")))

    cls_.attrs.update({
        "compile_order": Native(compile_order, "cls.compile_order"), "get_impl": Native(get_impl, "cls.get_impl"),
        "sqa_type": Native(lambda t: Var("ty"), "cls.sqa_type"), "dialect_order_append_rand": Native(lambda: False, "cls.dialect_order_append_rand"),
        "fix_fn_types": Native(lambda fn, val, *args: val, "cls.fix_fn_types"),
    })  # fmt: skip
    f = w.env["SqlImpl"].methods["compile_col_expr"].bind(cls_)
    leaf, cache = w.source("t", ["a", "g", "o"])
    cols = cache.attrs["cols"]
    sqa_expr = {u: p.call(w.env["Label"], [u.split(".")[1], None]) for u in cols}

    def has(t, pred):
        if pred(t):
            return True
        if isinstance(t, Term):
            return any(has(x, pred) for x in list(t.args) + list(t.kwargs.values()) + ([t.recv] if t.recv is not None else []))
        if isinstance(t, (list, tuple)):
            return any(has(x, pred) for x in t)
        return False

    is_g = lambda x: isinstance(x, Obj) and x.attrs.get("name") == "g"  # noqa: E731
    is_o = lambda x: isinstance(x, Var) and x.name == "O:o"  # noqa: E731
    for label, part, arr in (("partition_by= and arrange=", True, True), ("arrange= only", False, True), ("partition_by= only", True, False)):
        e = w.fn("winfn", WIN, cols["t.a"])
        e.attrs["op"].attrs["trie"] = _ModuleNS({"best_match": Native(lambda sig: ([w.I for _ in sig], None), "trie.best_match")})
        e.attrs["_ftype"] = w.F.WINDOW
        kw = {}
        if part:
            kw["partition_by"] = [cols["t.g"]]
        if arr:
            kw["arrange"] = [w.order(cols["t.o"])]
        e.attrs["context_kwargs"] = kw
        try:
            t = p.call(f, [e, sqa_expr])
        except PyRaise as ex:
            out.append((f"window function with {label} compiles", False, f"SqlImpl.compile_col_expr raises {ex.name}: {ex.msg} for a window function with {label}"))
            continue
        overs = [x for x in (t.walk() if isinstance(t, Term) else []) if isinstance(x, Term) and x.fn.split(".")[-1] == "over"]
        if len(overs) != 1:
            out.append((f"window function with {label}: one OVER clause", False, f"a window function with {label} compiles to {str(t)[:160]} with {len(overs)} OVER clauses"))
            continue
        o = overs[0]
        pb, ob = o.kwargs.get("partition_by"), o.kwargs.get("order_by")
        ok = (has(pb, is_g) == part) and not has(pb, is_o) and (has(ob, is_o) == arr) and not has(ob, is_g) and has(o.args, lambda x: isinstance(x, Term) and x.fn == "impl:winfn")
        out.append((f"window function with {label}: OVER(PARTITION BY <partition_by=> ORDER BY <arrange=>)", ok,
                    f"a window function with {label} compiles to {str(o)[:220]}: PARTITION BY must hold the compiled partition_by= columns and ORDER BY the compiled "
                    "arrange= keys (neither swapped nor dropped)"))  # fmt: skip
    return out


def ingress_scenarios(w: RealWorld):
    """`preprocess_arg` interpreted on a stub table with a hidden column, for every kind of reference an expression can carry:
    `C.name` resolves to the table's visible column of that name (also nested below functions), a column object in scope -
    visible or hidden - keeps its identity, a column of another table and an unknown name are refused with
    ColumnNotFoundError, and the expression object the caller passed is not modified.
    -> list of (tag, description, ok, detail)   (tag: resolve | unknown | foreign | untouched)"""
    p = w.p
    out = []
    venv = p.env_of(p.repo.mod("pipe.verbs"))
    pa = venv["preprocess_arg"]

    def table():
        leaf, cache = w.source("t", ["a", "b", "h"])
        # h is hidden: in scope, not visible
        cache.attrs["name_to_uuid"] = {n: u for n, u in cache.attrs["name_to_uuid"].items() if n != "h"}
        cache.attrs["uuid_to_name"] = {u: n for u, n in cache.attrs["uuid_to_name"].items() if n != "h"}
        return leaf, cache, p.new("pipe.table", "Table", _ast=leaf, _cache=cache)

    def cname(n):
        return p.new("tree.col_expr", "ColName", name=n, _dtype=None, _ftype=None)

    def uid_of(e):
        return e.attrs.get("_uuid") if isinstance(e, Obj) else None

    def run(label, tag, build, judge):
        leaf, cache, tbl = table()
        other_leaf, other_cache = w.source("o", ["a"])
        e = build(cache, other_cache)
        snap = dict(e.attrs) if isinstance(e, Obj) else None
        snap_args = list(e.attrs["args"]) if isinstance(e, Obj) and isinstance(e.attrs.get("args"), list) else None
        try:
            r = ("value", p.call(pa, [e, tbl]))
        except PyRaise as ex:
            r = ("raise", ex.name)
        ok, detail = judge(r, cache, leaf)
        out.append((tag, label, ok, f"preprocess_arg, {label}: {detail}"))
        if isinstance(e, Obj) and r[0] == "value":
            same = dict(e.attrs) == snap and (snap_args is None or all(x is y for x, y in zip(e.attrs["args"], snap_args)) and len(e.attrs["args"]) == len(snap_args))
            out.append(("untouched", f"{label}: the caller's expression object is not modified", same,
                        f"preprocess_arg, {label}: the expression the caller passed was modified in place (its children now point into this table: using the same expression on another table resolves against the wrong one)"))  # fmt: skip

    def is_col(r, uid, name=None):
        return r[0] == "value" and isinstance(r[1], Obj) and r[1].cls.name == "Col" and r[1].attrs.get("_uuid") == uid and (name is None or r[1].attrs.get("name") == name)

    run("C.a", "resolve", lambda c, o: cname("a"), lambda r, c, leaf: (is_col(r, "t.a", "a") and r[1].attrs.get("_ast") is leaf, f"gives {r[0]} {uid_of(r[1]) if r[0] == 'value' else r[1]}, documented: the column `a` of this table"))
    run("a visible column of this table", "resolve", lambda c, o: c.attrs["cols"]["t.b"], lambda r, c, leaf: (is_col(r, "t.b"), f"gives {r[0]} {uid_of(r[1]) if r[0] == 'value' else r[1]}, documented: the same column"))
    run("a hidden column of this table (in scope)", "resolve", lambda c, o: c.attrs["cols"]["t.h"], lambda r, c, leaf: (is_col(r, "t.h"), f"gives {r[0]} {uid_of(r[1]) if r[0] == 'value' else r[1]}, documented: accepted (hidden columns stay referable)"))
    run("C.zz (no such column)", "unknown", lambda c, o: cname("zz"), lambda r, c, leaf: (r == ("raise", "ColumnNotFoundError"), f"gives {r}, documented: ColumnNotFoundError"))
    run("C.h (the name of a hidden column)", "unknown", lambda c, o: cname("h"), lambda r, c, leaf: (r == ("raise", "ColumnNotFoundError"), f"gives {r}, documented: ColumnNotFoundError (hidden columns have no name)"))
    run("a column of another table", "foreign", lambda c, o: o.attrs["cols"]["o.a"], lambda r, c, leaf: (r == ("raise", "ColumnNotFoundError"), f"gives {r}, documented: ColumnNotFoundError"))

    def nested(c, o):
        return w.fn("f", EW, w.fn("g", EW, cname("a")), c.attrs["cols"]["t.b"])

    def judge_nested(r, c, leaf):
        if r[0] != "value" or not isinstance(r[1], Obj):
            return False, f"gives {r}"
        inner = r[1].attrs["args"][0].attrs["args"][0] if r[1].attrs.get("args") and isinstance(r[1].attrs["args"][0], Obj) and r[1].attrs["args"][0].attrs.get("args") else None
        return (isinstance(inner, Obj) and inner.cls.name == "Col" and inner.attrs.get("_uuid") == "t.a" and uid_of(r[1].attrs["args"][1]) == "t.b",
                f"the nested C.a becomes {inner.cls.name if isinstance(inner, Obj) else inner}({uid_of(inner)}), documented: the column t.a")

    run("f(g(C.a), t.b)", "resolve", nested, judge_nested)
    run("f(<column of another table>)", "foreign", lambda c, o: w.fn("f", EW, o.attrs["cols"]["o.a"]), lambda r, c, leaf: (r == ("raise", "ColumnNotFoundError"), f"gives {r}, documented: ColumnNotFoundError"))
    return out


def case_scenarios_sql(w: RealWorld):
    """the CaseExpr branch of `SqlImpl.compile_col_expr` interpreted: one WHEN per case, in the order of the cases, each with its
    own condition and value (also when several cases have the same value), ELSE only when a default is given.
    -> list of (description, ok, detail)"""
    p = w.p
    out = []
    cls_ = Obj(w.env["SqlImpl"])
    cls_.attrs.update({
        "compile_lit": Native(lambda lit: Var(f"lit:{lit.attrs.get('val')!r}"), "cls.compile_lit"),
        "sqa_type": Native(lambda t: Var("ty"), "cls.sqa_type"),
        "pdt_type": Native(lambda t: _ModuleNS({"is_subtype": Native(lambda other: True, "Dtype.is_subtype")}), "cls.pdt_type"),
    })  # fmt: skip
    f = w.env["SqlImpl"].methods["compile_col_expr"].bind(cls_)
    leaf, cache = w.source("t", ["a", "b", "c"])
    cols = cache.attrs["cols"]
    sqa_expr = {u: Var(f"col:{u}") for u in cols}

    def lit(v):
        e = w.lit(v)
        e.attrs["val"] = v
        e.attrs["_dtype"] = w.I
        return e

    def case(cases, default):
        return p.new("tree.col_expr", "CaseExpr", cases=list(cases), default_val=default, _dtype=w.I, _ftype=w.F.ELEMENT_WISE, _fn_id="fn")

    scen = [
        ("three cases, the first and the last with the same value", [("t.a", 0), ("t.b", 1), ("t.c", 0)], 9),
        ("two cases with equal values", [("t.a", 5), ("t.b", 5)], None),
        ("distinct values", [("t.a", 1), ("t.b", 2), ("t.c", 3)], 0),
        ("one case, no default", [("t.a", 1)], None),
    ]
    for label, cs, default in scen:
        e = case([(cols[u], lit(v)) for u, v in cs], lit(default) if default is not None else None)
        try:
            t = p.call(f, [e, sqa_expr])
        except PyRaise as ex:
            out.append((f"case expression ({label}) compiles", False, f"SqlImpl.compile_col_expr raises {ex.name}: {ex.msg} for a case expression with {label}"))
            continue
        calls = [x for x in (t.walk() if isinstance(t, Term) else []) if isinstance(x, Term) and x.fn.split(".")[-1] == "case"]
        if len(calls) != 1:
            out.append((f"case expression ({label}): one CASE", False, f"a case expression with {label} compiles to {str(t)[:200]} ({len(calls)} CASE constructs)"))
            continue
        c = calls[0]
        raw = []
        for a_ in c.args:
            for wh in (a_ if isinstance(a_, list) else [a_]):
                if isinstance(wh, (tuple, list)) and len(wh) == 2:
                    raw.append(wh)
        whens = [(repr(a_), repr(b_)) for a_, b_ in raw]
        want = [(repr(Var(f"col:{u}")), repr(Var(f"lit:{v!r}"))) for u, v in cs]
        else_ = c.kwargs.get("else_")
        ok = whens == want and ((else_ is None) == (default is None)) and (default is None or repr(else_) == repr(Var(f"lit:{default!r}")))
        if not ok:
            # not branch by branch: the statement may still mean the same - evaluated for every valuation of the conditions over
            # {true, false, null} (three-valued or / and / not; the first true WHEN decides, else ELSE / NULL)
            import itertools as _it

            def ev3(t_, val):
                if isinstance(t_, Var) and t_.name in val:
                    return val[t_.name]
                if isinstance(t_, Term) and t_.fn in ("op:BitOr", "op:BitAnd") and len(t_.args) == 2:
                    x, y = ev3(t_.args[0], val), ev3(t_.args[1], val)
                    if t_.fn == "op:BitOr":
                        return True if True in (x, y) else None if None in (x, y) else False
                    return False if False in (x, y) else None if None in (x, y) else True
                if isinstance(t_, Term) and t_.fn in ("op:Invert", "op:Not") and len(t_.args) == 1:
                    x = ev3(t_.args[0], val)
                    return None if x is None else not x
                raise KeyError(repr(t_))

            names = [f"col:{u}" for u, _ in cs]
            try:
                same = True
                for vals in _it.product((True, False, None), repeat=len(names)):
                    val = dict(zip(names, vals))
                    doc = next((repr(Var(f"lit:{v!r}")) for (u, v) in cs if val[f"col:{u}"] is True), repr(Var(f"lit:{default!r}")) if default is not None else None)
                    got = next((repr(b_) for a_, b_ in raw if ev3(a_, val) is True), repr(else_) if else_ is not None else None)
                    if doc != got:
                        same = False
                        break
                ok = same
            except KeyError:
                ok = False
        out.append((f"case expression ({label}): WHEN branches in order, one per case", ok,
                    f"a case expression with {label} compiles to WHEN {whens} ELSE {else_!r}; documented: one WHEN per case in the order given ({want}) - "
                    "the first true branch decides, so merging or re-ordering branches changes the result for rows on which several conditions hold"))  # fmt: skip
    return out
