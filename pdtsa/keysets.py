"""A15 (K1) - key-domain invariants of the Cache, decided on the A4 terms.

Invariants of a ``Cache``:  I1  ids(visible) <= ids(cols);  I2  ids(partition_by) <=
ids(visible);  (I3, the two name maps are inverse, is the pairing rule of C11.)
For every verb the new state is a term over the old state (A4).  ``ids_subset(a, b)``
is a small sound subset prover over those terms; the old state is assumed to satisfy
I1 and I2 (induction over the pipeline), verb preconditions that a verb function
establishes are listed in ``PRECONDITIONS`` with the rule instance that checks them.
"""

from __future__ import annotations

from . import seqterm as S

# facts about the *old* state and about verb fields (reason each)
AXIOMS = [
    (S.PART, S.IN, "I2 of the input cache"),
    (S.IN, S.COLS, "I1 of the input cache"),
    (S.RIN, S.RCOLS, "I1 of the right input cache"),
    (S.RPART, S.RIN, "I2 of the right input cache"),
]

PRECONDITIONS = {
    # verb -> [(a, b, reason)]   meaning ids(a) <= ids(b) is guaranteed by the verb function
    "GroupBy": [(S.FLD("group_by"), S.IN, "verbs.group_by rejects non-selected columns with ValueError; C.name resolves to visible columns (C14 instance `group_by-hidden`)")],
    "Alias": [(S.IN, S.FLD("uuid_map"), "every producer of Alias.uuid_map maps at least the visible columns (C16.R6 producer/consumer rule)")],
    "Select": [(S.FLD("select"), S.IN, "verbs.select rejects hidden / unknown columns (C14 instances `select-unknown`, `select-hidden`)")],
}  # fmt: skip


def _pieces(t):
    """split a term into the parts all of which must be contained (union-like heads)"""
    h = t[0]
    if h in ("cat", "merge"):
        return _pieces(t[1]) + _pieces(t[2])
    if h == "ite":
        return _pieces(t[2]) + _pieces(t[3])
    return [t]


def ids_subset(a, b, verb, *, name_keyed_b=False, facts=None, why=None) -> bool:
    """is ids(a) provably a subset of ids(b)?   `name_keyed_b`: b is a name-keyed map, so a
    `merge` inside b drops the left ids whose names are overwritten."""
    facts = (facts or []) + AXIOMS + PRECONDITIONS.get(verb, [])
    why = why if why is not None else []

    def sub(x, y, depth=0) -> bool:
        if depth > 12:
            return False
        if x == S.EMPTY or x == y:
            return True
        hx = x[0]
        # decompose the left side
        if hx in ("cat", "merge", "ite"):
            return all(sub(p, y, depth + 1) for p in _pieces(x))
        if hx in ("keep", "dropnamed", "dropids"):
            if sub(x[1], y, depth + 1):
                return True
            if hx == "keep" and x[2][0] == "setof" and sub(x[2][1], y, depth + 1):
                return True
        # decompose the right side
        hy = y[0]
        if hy == "cat":
            if sub(x, y[1], depth + 1) or sub(x, y[2], depth + 1):
                return True
        elif hy == "merge":
            if sub(x, y[2], depth + 1):
                return True
            if not name_keyed_b and sub(x, y[1], depth + 1):
                return True  # uuid-keyed merge is a union
        elif hy == "ite":
            if sub(x, y[2], depth + 1) and sub(x, y[3], depth + 1):
                return True
        elif hy == "keep":
            if y[2][0] == "setof" and sub(x, y[1], depth + 1) and sub(x, y[2][1], depth + 1):
                return True
        # note: x <= dropnamed(y', N) / dropids(..) is not provable in general (something is removed)
        # transitivity through the facts
        for fa, fb, reason in facts:
            if x == fa and (fb == y or sub(fb, y, depth + 1)):
                if reason not in why:
                    why.append(reason)
                return True
        return False

    return sub(a, b)
