"""A3 - ownership / effect analysis: which functions may write to an object that
existed before the call?

Abstract value of an expression = a vector of three origin sets, one per *depth*:
depth 0 the object itself, depth 1 its fields / elements, depth 2 everything deeper.
Origins: ``F`` allocated in this activation; ``("P", x, k)`` the object ``k`` levels
inside parameter ``x`` (k = 2 means "2 or deeper"); ``G`` a module-level object.
``copy.copy(e)`` is a fresh *shell* whose content is shared: ``(F, v[1], v[2])``.
The interpreter is flow-sensitive on local names (strong updates, joins at
if/loop/try), summaries ``MUT`` (which parameters a function may write, at which
depth, under which "optional parameter is not None" condition) and ``RET`` (what
the result may alias) are computed as a fixpoint over the call graph.  Callees are
resolved lexically, through imports, ``self``/``cls``/``super()`` via the MRO, and by
class-hierarchy analysis on the method name otherwise.  Library calls (Polars,
SQLAlchemy, stdlib) are assumed to return fresh objects and not to write their
arguments, except the listed aliasing built-ins and container mutators.
"""

from __future__ import annotations

import ast
from collections import defaultdict

from .source import INTERNAL, AnalysisError, Module, Repo, dotted, norm, parent, qual_of
from .symbols import ClassInfo, Symbols

F = "F"
G = "G"
EMPTYSET = frozenset()


def P(x, k):
    return ("P", x, min(k, 2))


def vec(a=EMPTYSET, b=None, c=None):
    a = frozenset(a)
    b = a if b is None else frozenset(b)
    c = b if c is None else frozenset(c)
    return (a, b, c)


FRESH = vec({F})
NOTHING = vec()
GLOBALV = vec({G})


def pvec(x):
    return (frozenset({P(x, 0)}), frozenset({P(x, 1)}), frozenset({P(x, 2)}))


class TV(tuple):
    """value of a tuple display / of a function returning one: one vector per position"""


def V(v):
    """plain vector of a value (a tuple value becomes a fresh container of its elements)"""
    if isinstance(v, TV):
        e = _join_plain(*v) if len(v) else NOTHING
        return (frozenset({F}), e[0], frozenset(e[1] | e[2]))
    return v


def shift(v):
    if isinstance(v, TV):
        return _join_plain(*[V(x) for x in v]) if len(v) else NOTHING
    return (v[1], v[2], v[2])


def _join_plain(*vs):
    return tuple(frozenset().union(*(v[i] for v in vs)) for i in range(3))


def join(*vs):
    vs = [v for v in vs if v is not None]
    if not vs:
        return NOTHING
    if all(isinstance(v, TV) for v in vs) and len({len(v) for v in vs}) == 1:
        return TV(join(*[v[i] for v in vs]) for i in range(len(vs[0])))
    return _join_plain(*[V(v) for v in vs])


def shell(content):
    """fresh object whose fields are `content` (a vector describing the fields)"""
    return (frozenset({F}), content[0], join(content, shift(content))[1])


def container(elem_vs):
    """fresh container of the given element values"""
    e = _join_plain(*[V(x) for x in elem_vs]) if elem_vs else NOTHING
    return (frozenset({F}), e[0], frozenset(e[1] | e[2]))


def subst_tagset(tags, argmap):
    out = set()
    for t in tags:
        if isinstance(t, tuple) and t[0] == "P":
            a = argmap.get(t[1])
            if a is not None:
                a = V(a)
            if a is None:
                continue  # parameter not supplied (default): defaults are fresh / immutable constants
            k = t[2]
            out |= a[k]
            if k == 2:
                out |= a[2]
        else:
            out.add(t)
    return frozenset(out)


def subst(v, argmap):
    if isinstance(v, TV):
        return TV(subst(x, argmap) for x in v)
    return tuple(subst_tagset(v[i], argmap) for i in range(3))


INIT_METHODS = {"__init__", "__post_init__", "__new__", "__setstate__", "__init_subclass__", "__set_name__"}
BUILTIN_MUTATORS = {"append", "extend", "insert", "pop", "popitem", "remove", "clear", "update", "setdefault", "add",
                    "discard", "sort", "reverse", "appendleft", "popleft", "difference_update", "intersection_update"}  # fmt: skip
# library / builtin functions whose result aliases (parts of) their arguments
ALIASING_FUNCS = {"next", "getattr", "iter", "reversed", "zip", "enumerate", "list", "tuple", "set", "sorted", "dict",
                  "frozenset", "filter", "map", "reduce", "chain", "product", "min", "max", "vars", "cast"}  # fmt: skip
ALIASING_METHODS = {"get", "items", "values", "keys", "pop", "popitem", "setdefault", "copy", "union", "intersection",
                    "difference", "from_iterable", "__getitem__"}  # fmt: skip
IMMUTABLE_ANN = ("str", "int", "bool", "float", "None", "bytes", "Literal", "UUID", "Ftype", "Target", "type[Target]",
                 "Dtype", "type", "Operator")
# value classes treated as immutable; rule C10/IMM verifies that none of their attributes is assigned outside __init__
IMMUTABLE_VALUE_CLASSES = ("Target", "Const", "Tyvar", "Operator", "Signature", "ContextKwarg")

# rewriting primitives of the tree classes (verified structurally by rule C10/PRIM):
#   x.map_children(g)  : writes x (depth 0); applies g to the original children; afterwards the children are g's results
#   x.map_col_roots(g) : same for the expression roots of a verb
#   x.map_col_nodes(g) : roots are rebuilt by map_subtree(g): g only ever sees fresh copies
#   e.map_subtree(g)   : returns a rebuilt tree; g only ever sees fresh copies
PRIM_APPLY_ORIGINAL = {"map_children", "map_col_roots"}
PRIM_APPLY_COPIES = {"map_col_nodes"}
PRIM_REBUILD = {"map_subtree"}

MEMO = {
    # (function name, attribute): reason.  condition = keyword that makes the memo context dependent
    ("dtype", "_dtype"): ("function of the immutable subtree only", None),
    # context dependent through agg_is_window: judged by the separate call-site rule FTYPE (receivers of every call
    # that passes agg_is_window must be freshly rebuilt / owned trees), not by the ownership summaries
    ("ftype", "_ftype"): ("memo; context dependence decided by rule FTYPE", None),
}


def _mutable_global(value) -> bool:
    """module-level containers (tables, registries) are the global objects a function could write"""
    if value is None:
        return False
    if isinstance(value, (ast.Dict, ast.List, ast.Set, ast.DictComp, ast.ListComp, ast.SetComp)):
        return True
    if isinstance(value, ast.Call) and (dotted(value.func) or "").split(".")[-1] in ("dict", "list", "set", "defaultdict", "ImplStore"):
        return True
    return False


class Fn:
    def __init__(self, module: Module, node, cls: ClassInfo | None, parent_fn: "Fn | None", binding=None):
        self.module = module
        self.node = node
        self.cls = cls
        self.parent_fn = parent_fn
        self.binding = binding or {}  # callable parameters bound to known functions (decorator instantiation)
        self.qual = qual_of(node)
        self.key = (module.name, self.qual, tuple(sorted((k, v.key) for k, v in self.binding.items())))
        a = node.args
        self.pos = [x.arg for x in a.posonlyargs + a.args]
        self.kwonly = [x.arg for x in a.kwonlyargs]
        self.vararg = a.vararg.arg if a.vararg else None
        self.kwarg = a.kwarg.arg if a.kwarg else None
        self.params = self.pos + self.kwonly + ([self.vararg] if self.vararg else []) + ([self.kwarg] if self.kwarg else [])
        self.ann = {x.arg: norm(x.annotation) for x in a.posonlyargs + a.args + a.kwonlyargs if x.annotation is not None}
        defaults = {}
        if a.defaults:
            for p, d in zip(self.pos[len(self.pos) - len(a.defaults) :], a.defaults):
                defaults[p] = d
        for p, d in zip(a.kwonlyargs, a.kw_defaults):
            if d is not None:
                defaults[p.arg] = d
        self.defaults = defaults
        self.name = getattr(node, "name", "<lambda>")
        decos = getattr(node, "decorator_list", [])
        self.is_static = any(dotted(d) == "staticmethod" for d in decos)
        self.is_classmethod = any(dotted(d) == "classmethod" for d in decos)
        self.is_method = cls is not None and parent_fn is None and not self.is_static
        self.captured: set[str] = set()
        # summaries
        self.mut: dict[str, dict] = {}  # param -> {(depthflag, cond): witness}
        self.ret = FRESH
        self.gw: dict = {}  # global writes: key -> witness
        self.ret_known = False

    def __repr__(self):
        return f"<fn {self.module.name.split('.')[-1]}:{self.qual}>"

    @property
    def label(self):
        return f"{self.module.rel}:{self.qual}"

    def is_init(self):
        return self.name in INIT_METHODS and self.cls is not None


class Write:
    __slots__ = ("site", "desc", "chain")

    def __init__(self, site, desc, chain):
        self.site = site  # (module.rel, lineno)
        self.desc = desc
        self.chain = chain  # tuple of function labels from the summarised function to the write

    def extend(self, label):
        return Write(self.site, self.desc, (label,) + self.chain)


class Effects:
    def __init__(self, repo: Repo, sym: Symbols):
        self.repo = repo
        self.sym = sym
        self.fns: dict[tuple, Fn] = {}
        self.by_node: dict[int, Fn] = {}
        self.methods_by_name: dict[str, list[Fn]] = defaultdict(list)
        self.stats = {"call_sites": 0, "resolved": 0, "resolved_cha": 0, "library": 0, "write_sites": 0}
        self._collect()
        self._fixpoint()

    # ------------------------------------------------------------------ collection
    def _collect(self):
        for m in self.repo.modules.values():
            self._collect_in(m, m.tree, None, None)
        for fn in self.fns.values():
            self._captures(fn)

    def _collect_in(self, m: Module, node, cls: ClassInfo | None, parent_fn: Fn | None):
        for child in ast.iter_child_nodes(node):
            if isinstance(child, ast.ClassDef):
                ci = self.sym.classes.get(f"{m.name}.{child._qualname}")
                self._collect_in(m, child, ci, None if parent_fn is None else parent_fn)
            elif isinstance(child, (ast.FunctionDef, ast.AsyncFunctionDef, ast.Lambda)):
                fn = Fn(m, child, cls if parent_fn is None else None, parent_fn)
                self.fns[fn.key] = fn
                self.by_node[id(child)] = fn
                if fn.is_method or (cls is not None and parent_fn is None):
                    self.methods_by_name[fn.name].append(fn)
                self._collect_in(m, child, None, fn)
            else:
                self._collect_in(m, child, cls, parent_fn)

    def _captures(self, fn: Fn):
        if fn.parent_fn is None:
            return
        local = set(fn.params)
        for n in ast.walk(fn.node):
            if isinstance(n, ast.Name) and isinstance(n.ctx, ast.Store) and self._owner(n) is fn:
                local.add(n.id)
        outer = fn.parent_fn
        outer_names = set()
        while outer is not None:
            outer_names |= set(outer.params)
            for n in ast.walk(outer.node):
                if isinstance(n, ast.Name) and isinstance(n.ctx, ast.Store):
                    outer_names.add(n.id)
                elif isinstance(n, (ast.FunctionDef, ast.AsyncFunctionDef)) and n is not outer.node:
                    outer_names.add(n.name)
            outer = outer.parent_fn
        for n in ast.walk(fn.node):
            if isinstance(n, ast.Name) and isinstance(n.ctx, ast.Load) and n.id not in local and n.id in outer_names:
                fn.captured.add(n.id)

    def _owner(self, node):
        p = parent(node)
        while p is not None:
            if isinstance(p, (ast.FunctionDef, ast.AsyncFunctionDef, ast.Lambda)):
                return self.by_node.get(id(p))
            p = parent(p)
        return None

    # ------------------------------------------------------------------ fixpoint
    def _fixpoint(self):
        order = list(self.fns.values())
        for it in range(12):
            changed = False
            for fn in order:
                if self._analyse(fn):
                    changed = True
            self.iterations = it + 1
            if not changed:
                break
        else:
            raise AnalysisError("A3: effect summaries did not stabilise in 12 rounds")

    def instantiate(self, fn: Fn, binding: dict) -> Fn:
        """copy of `fn` with callable parameters bound (used for decorators such as @modify_ast)"""
        inst = Fn(fn.module, fn.node, fn.cls, fn.parent_fn, binding)
        if inst.key in self.fns:
            return self.fns[inst.key]
        self.fns[inst.key] = inst
        for _ in range(6):
            if not self._analyse(inst):
                break
        return inst

    def _analyse(self, fn: Fn) -> bool:
        interp = Interp(self, fn)
        interp.run()
        changed = False
        for p, ws in interp.mut.items():
            cur = fn.mut.setdefault(p, {})
            for k, w in ws.items():
                if k not in cur:
                    cur[k] = w
                    changed = True
        for k, w in interp.gw.items():
            if k not in fn.gw:
                fn.gw[k] = w
                changed = True
        new_ret = interp.ret if interp.ret is not None else FRESH
        # a function annotated to return an immutable value type (`-> Dtype`, `-> bool`, `-> str | None` ...) hands out values
        # that nobody can write to: where they come from is irrelevant (rule IMM checks the immutability of those classes)
        rann = getattr(fn.node, "returns", None)
        if rann is not None:
            rtext = ast.unparse(rann).strip('"').strip("'")
            if rtext and all(any(part.strip().startswith(i) for i in IMMUTABLE_ANN) for part in rtext.split("|")):
                new_ret = FRESH
        if not fn.ret_known or new_ret != fn.ret:
            if fn.ret_known:
                new_ret = join(fn.ret, new_ret)
            if not fn.ret_known or new_ret != fn.ret:
                fn.ret = new_ret
                fn.ret_known = True
                changed = True
        fn.interp_stats = interp.local_stats
        fn.obs = interp.obs
        fn.edges = interp.edges
        return changed

    # ------------------------------------------------------------------ resolution helpers
    def module_function(self, module: Module, name: str):
        """repo function / class named `name` as seen from `module` (through imports)"""
        full = self.sym.resolve_name(module, name)
        if full is None:
            return None
        return self.lookup_full(full)

    def lookup_full(self, full: str):
        parts = full.split(".")
        for i in range(len(parts) - 1, 0, -1):
            mn = ".".join(parts[:i])
            m = self.repo.modules.get(mn)
            if m is None:
                continue
            q = ".".join(parts[i:])
            node = m.defs.get(q)
            if node is None:
                return None
            if isinstance(node, ast.ClassDef):
                return self.sym.classes.get(f"{mn}.{q}")
            return self.by_node.get(id(node))
        return None

    def method(self, ci: ClassInfo, name: str, with_overrides=True) -> list[Fn]:
        out = []
        c, node = ci.find_method(name)
        if node is not None:
            f = self.by_node.get(id(node))
            if f:
                out.append(f)
        if with_overrides:
            for d in ci.descendants():
                if name in d.methods:
                    f = self.by_node.get(id(d.methods[name]))
                    if f and f not in out:
                        out.append(f)
        return out


class Interp:
    """flow-sensitive abstract interpreter for one function body"""

    def __init__(self, eff: Effects, fn: Fn):
        self.eff = eff
        self.fn = fn
        self.mut: dict[str, dict] = {}
        self.gw: dict = {}
        self.ret = None
        self.local_stats = {"calls": 0, "resolved": 0, "cha": 0, "library": 0, "writes": 0}
        self.fnvals: dict[str, list] = {}  # local name -> callable descriptions
        self.obs: dict[int, dict] = {}  # id(call node) -> facts recorded for call-site rules
        self.edges: set = set()

    # -- entry -----------------------------------------------------------------------
    def run(self):
        fn = self.fn
        env = {}
        for p in fn.params:
            env[p] = NOTHING if self._immutable_name(p) else pvec(p)
        for c in fn.captured:
            env[c] = pvec(c)
        if isinstance(fn.node, ast.Lambda):
            v = self.val_tv(fn.node.body, env)
            self.ret = v
            return
        env = self.block(fn.node.body, env)

    # -- statements --------------------------------------------------------------------
    def block(self, stmts, env):
        for st in stmts:
            env = self.stmt(st, env)
            if env is None:
                return None
        return env

    def joinenv(self, a, b):
        if a is None:
            return b
        if b is None:
            return a
        out = {}
        for k in set(a) | set(b):
            if k in a and k in b:
                out[k] = join(a[k], b[k])
            else:
                out[k] = a.get(k) or b.get(k)
        return out

    def stmt(self, st, env):
        if isinstance(st, (ast.FunctionDef, ast.AsyncFunctionDef)):
            env = dict(env)
            env[st.name] = FRESH
            self.fnvals[st.name] = [("fn", self.eff.by_node.get(id(st)), {})]
            return env
        if isinstance(st, ast.ClassDef):
            return env
        if isinstance(st, ast.Return):
            if isinstance(st.value, ast.Constant) and st.value.value is None and isinstance(self.ret, TV):
                return None  # `return None` next to tuple returns: None aliases nothing, the positions of the tuples are kept
            if st.value is not None:
                v = self.val_tv(st.value, env)
                if isinstance(v, TV) and self.ret is not None and not isinstance(self.ret, TV) and self.ret == FRESH:
                    self.ret = v  # (an earlier `return None`)
                else:
                    self.ret = join(self.ret, v) if self.ret is not None else v
            else:
                self.ret = join(self.ret, FRESH) if self.ret is not None else FRESH
            return None
        if isinstance(st, ast.Raise):
            if st.exc is not None:
                self.val(st.exc, env)
            return None
        if isinstance(st, (ast.Continue, ast.Break)):
            return env
        if isinstance(st, ast.Expr):
            v = self.val(st.value, env)
            if isinstance(st.value, (ast.Yield, ast.YieldFrom)):
                pass
            return self._post_call_update(st.value, env)
        if isinstance(st, ast.Assign):
            v = self.val_tv(st.value, env)
            if not any(isinstance(t, (ast.Tuple, ast.List)) for t in st.targets):
                v = V(v)
            env = dict(env)
            self._track_fnval(st.targets, st.value, env)
            for t in st.targets:
                self.assign(t, v, env, st)
            return env
        if isinstance(st, ast.AnnAssign):
            if st.value is None:
                return env
            v = self.val(st.value, env)
            env = dict(env)
            self._track_fnval([st.target], st.value, env)
            self.assign(st.target, v, env, st)
            return env
        if isinstance(st, ast.AugAssign) and isinstance(st.op, ast.RShift) and isinstance(st.target, ast.Name):
            r = self._pipe(st.target, st.value, env)
            env = dict(env)
            env[st.target.id] = V(r) if r is not None else FRESH
            return env
        if isinstance(st, ast.AugAssign):
            v = self.val(st.value, env)
            env = dict(env)
            t = st.target
            if isinstance(t, ast.Name):
                cur = env.get(t.id, self.name_value(t.id, env))
                immutable = isinstance(st.value, (ast.Constant, ast.JoinedStr)) or self._immutable_name(t.id)
                if not immutable and isinstance(st.op, (ast.Add, ast.BitOr, ast.BitAnd, ast.Sub, ast.BitXor)):
                    # in-place update of a list / dict / set
                    self.write(cur[0], st, f"in-place `{norm(st)[:70]}`", env)
                    env[t.id] = (cur[0], frozenset(cur[1] | v[1]), frozenset(cur[2] | v[2]))
                else:
                    env[t.id] = cur
            else:
                obj = t.value
                ov = self.val(obj, env)
                self.write(self._path_origin(obj, ov, env), st, f"`{norm(st)[:70]}`", env)
            return env
        if isinstance(st, ast.Delete):
            for t in st.targets:
                if isinstance(t, (ast.Attribute, ast.Subscript)):
                    ov = self.val(t.value, env)
                    self.write(self._path_origin(t.value, ov, env), st, f"`{norm(st)[:70]}`", env)
            return env
        if isinstance(st, ast.If):
            self.val(st.test, env)
            e1 = self.block(st.body, dict(env))
            e2 = self.block(st.orelse, dict(env))
            if e1 is None and e2 is None:
                return None
            return self.joinenv(e1, e2)
        if isinstance(st, (ast.For, ast.AsyncFor)):
            cur = dict(env)
            for _ in range(3):
                e = dict(cur)
                self.assign(st.target, self.iter_elem(st.iter, e), e, st, loop=True)
                e = self.block(st.body, e)
                nxt = self.joinenv(cur, e)
                if nxt == cur:
                    break
                cur = nxt
            e2 = self.block(st.orelse, dict(cur)) if st.orelse else cur
            return self.joinenv(cur, e2)
        if isinstance(st, ast.While):
            cur = dict(env)
            for _ in range(3):
                self.val(st.test, cur)
                e = self.block(st.body, dict(cur))
                nxt = self.joinenv(cur, e)
                if nxt == cur:
                    break
                cur = nxt
            return cur
        if isinstance(st, (ast.With, ast.AsyncWith)):
            env = dict(env)
            for item in st.items:
                v = self.val(item.context_expr, env)
                if item.optional_vars is not None:
                    self.assign(item.optional_vars, v, env, st)
            return self.block(st.body, env)
        if isinstance(st, ast.Try):
            e_body = self.block(st.body, dict(env))
            outs = []
            if e_body is not None:
                outs.append(self.block(st.orelse, e_body) if st.orelse else e_body)
            base = self.joinenv(env, e_body)
            for h in st.handlers:
                he = dict(base)
                if h.name:
                    he[h.name] = FRESH  # exception objects are created by the failing call
                outs.append(self.block(h.body, he))
            res = None
            for o in outs:
                res = self.joinenv(res, o)
            if st.finalbody:
                res = self.block(st.finalbody, res if res is not None else dict(env))
            return res
        if isinstance(st, ast.Assert):
            self.val(st.test, env)
            return env
        if isinstance(st, (ast.Import, ast.ImportFrom, ast.Pass, ast.Global, ast.Nonlocal)):
            return env
        if isinstance(st, ast.Match):
            self.val(st.subject, env)
            res = None
            for c in st.cases:
                res = self.joinenv(res, self.block(c.body, dict(env)))
            return self.joinenv(res, env)
        return env

    def iter_elem(self, it, env):
        """value of one element produced by iterating `it` (position-wise for enumerate / zip / items)"""
        if isinstance(it, ast.Call):
            fn = dotted(it.func) or ""
            if fn == "enumerate" and it.args:
                return TV([FRESH, shift(self.val(it.args[0], env))])
            if fn == "zip" and it.args and not any(isinstance(a, ast.Starred) for a in it.args):
                return TV([shift(self.val(a, env)) for a in it.args])
            if isinstance(it.func, ast.Attribute) and it.func.attr == "items" and not it.args:
                d = shift(self.val(it.func.value, env))
                return TV([d, d])
        return shift(self.val(it, env))

    def _annotation_of(self, name):
        fn = self.fn
        while fn is not None:
            if name in fn.ann:
                return fn.ann[name]
            fn = fn.parent_fn
        return None

    def _getitem_method(self, base):
        """`x[k]` where x is a parameter annotated with a repository class that defines __getitem__"""
        if not isinstance(base, ast.Name):
            return None
        ann = self._annotation_of(base.id)
        if not ann:
            return None
        ann = ann.strip('"').strip("'")
        ci = self.eff.sym.by_name.get(ann)
        if not ci or len(ci) != 1:
            return None
        c, node = ci[0].find_method("__getitem__")
        return self.eff.by_node.get(id(node)) if node is not None else None

    def _immutable_name(self, name) -> bool:
        ann = self.fn.ann.get(name, "")
        if ann and all(any(part.strip().startswith(i) for i in IMMUTABLE_ANN) for part in ann.split("|")):
            return True
        return False

    def _track_fnval(self, targets, value, env):
        if len(targets) == 1 and isinstance(targets[0], ast.Name):
            c = self.callable_of(value, env)
            if c:
                self.fnvals[targets[0].id] = c
            else:
                self.fnvals.pop(targets[0].id, None)

    def assign(self, target, v, env, st, loop=False):
        if isinstance(target, ast.Name):
            v = V(v)
            env[target.id] = v
            # forget path facts rooted at this name
            for k in [k for k in env if k.startswith(target.id + ".")]:
                del env[k]
        elif isinstance(target, (ast.Tuple, ast.List)):
            if isinstance(v, TV) and len(v) == len(target.elts) and not any(isinstance(e, ast.Starred) for e in target.elts):
                for e, ev in zip(target.elts, v):
                    self.assign(e, ev, env, st)
                return
            for e in target.elts:
                if isinstance(e, ast.Starred):
                    self.assign(e.value, V(v), env, st)
                else:
                    self.assign(e, shift(v), env, st)
        elif isinstance(target, ast.Attribute):
            v = V(v)
            obj = target.value
            ov = self.val(obj, env)
            if not loop:
                self.write(self._path_origin(obj, ov, env), st, f"`{norm(target)} = ...`", env, attr=target.attr)
            p = dotted(target)
            if p is not None and p.count(".") <= 2:
                env[p] = v  # strong path fact: x.a now holds v
            root = dotted(obj)
            if root is not None and root in env and "." not in root:
                cur = env[root]
                env[root] = (cur[0], frozenset(cur[1] | v[0]), frozenset(cur[2] | v[1] | v[2]))
        elif isinstance(target, ast.Subscript):
            v = V(v)
            obj = target.value
            ov = self.val(obj, env)
            self.val(target.slice, env)
            self.write(self._path_origin(obj, ov, env), st, f"`{norm(target)[:60]} = ...`", env)
            root = dotted(obj)
            if root is not None and root in env:
                cur = env[root]
                env[root] = (cur[0], frozenset(cur[1] | v[0]), frozenset(cur[2] | v[1] | v[2]))
        elif isinstance(target, ast.Starred):
            self.assign(target.value, v, env, st)

    def _path_origin(self, obj_expr, ov, env):
        return ov[0]

    # -- writes --------------------------------------------------------------------------
    def write(self, origins, node, desc, env, attr=None, chain=(), cond_override=None, site=None):
        fn = self.fn
        self.local_stats["writes"] += 1 if not chain else 0
        site = site or (fn.module.rel, getattr(node, "lineno", 0))
        for t in origins:
            if t == F:
                continue
            if t == G:
                key = (site, desc)
                if key not in self.gw:
                    self.gw[key] = Write(site, desc, (fn.label,) + tuple(chain))
                continue
            _, x, k = t
            # constructor-like methods may initialise their own object
            if fn.is_init() and x == (fn.pos[0] if fn.pos else None) and k == 0 and not chain:
                continue
            cond = cond_override
            memo = None
            if attr is not None and not chain:
                memo = MEMO.get((fn.name, attr))
                if memo is not None and x == (fn.pos[0] if fn.pos else None) and k == 0:
                    if memo[1] is None:
                        continue  # pure memo
                    cond = memo[1]
            if cond is None and not chain:
                cond = self._enclosing_none_guard(node)
            key = (k, cond)
            d = self.mut.setdefault(x, {})
            if key not in d:
                d[key] = Write(site, desc, (fn.label,) + tuple(chain))

    def _enclosing_none_guard(self, node):
        """name of an optional parameter p such that the write is enclosed by `if p is not None`"""
        from .flow import dominating_tests, none_test, preceding_guards

        # `if p is not None: <write>` and the early-exit form `if p is None: return ..` before the write
        for test, pol in list(dominating_tests(node, self.fn.node)) + list(preceding_guards(node, self.fn.node)):
            nt = none_test(test)
            if nt is None:
                continue
            text, holds_when_not_none = nt
            if holds_when_not_none == pol and text.isidentifier():
                d = self.fn.defaults.get(text)
                if isinstance(d, ast.Constant) and d.value is None:
                    return text
        return None

    # -- expressions -----------------------------------------------------------------------
    def name_value(self, name, env):
        if name in env:
            return env[name]
        m = self.fn.module
        # module-level objects (tables, registries) are global; functions / classes / modules are not objects we write
        if name in m.defs or name in m.imports:
            tgt = m.imports.get(name)
            if tgt is not None and self.eff.repo.modules.get(tgt) is None and not tgt.startswith(INTERNAL):
                return FRESH  # library module / name
            return GLOBALV if _mutable_global(m.toplevel_assign(name)) else FRESH
        if _mutable_global(m.toplevel_assign(name)):
            return GLOBALV
        return FRESH

    def val(self, e, env):
        return V(self.val_tv(e, env))

    def val_tv(self, e, env):
        if e is None:
            return FRESH
        if isinstance(e, ast.Name):
            return self.name_value(e.id, env)
        if isinstance(e, ast.Constant) or isinstance(e, ast.JoinedStr):
            if isinstance(e, ast.JoinedStr):
                for v in e.values:
                    if isinstance(v, ast.FormattedValue):
                        self.val(v.value, env)
            return FRESH
        if isinstance(e, ast.Attribute):
            p = dotted(e)
            if p is not None and p in env:
                return env[p]
            if isinstance(e.value, ast.Name) and e.value.id not in env:
                # module attribute: ops.add, verbs.Alias, types.X
                m = self.fn.module
                tgt = m.imports.get(e.value.id)
                if tgt is not None:
                    tm = self.eff.repo.modules.get(self.eff.sym.canonical(tgt))
                    if tm is not None:
                        return GLOBALV if _mutable_global(tm.toplevel_assign(e.attr)) else FRESH
                    return FRESH  # ops.<operator>, library attributes: immutable catalogue objects / not ours
            return shift(self.val(e.value, env))
        if isinstance(e, ast.Subscript):
            self.val(e.slice, env) if not isinstance(e.slice, ast.Slice) else None
            gi = self._getitem_method(e.value)
            if gi is not None:
                recv = self.val(e.value, env)
                return self._apply(e, gi, "method", {}, recv, [(None, self.val(e.slice, env))], {}, None, env)
            v = self.val_tv(e.value, env)
            if isinstance(v, TV):
                if isinstance(e.slice, ast.Constant) and isinstance(e.slice.value, int) and -len(v) <= e.slice.value < len(v):
                    return v[e.slice.value]
                return shift(v)
            if isinstance(e.slice, ast.Slice):
                return (frozenset({F}), v[1], v[2])
            return shift(v)
        if isinstance(e, ast.Call):
            return self.call(e, env)
        if isinstance(e, (ast.List, ast.Tuple, ast.Set)):
            vs = []
            for x in e.elts:
                if isinstance(x, ast.Starred):
                    vs.append(shift(self.val(x.value, env)))
                else:
                    vs.append(self.val(x, env))
            if isinstance(e, ast.Tuple) and vs and not any(isinstance(x, ast.Starred) for x in e.elts):
                return TV(V(v) for v in vs)
            return container(vs)
        if isinstance(e, ast.Dict):
            vs = []
            for k, v in zip(e.keys, e.values):
                if k is None:
                    vs.append(shift(self.val(v, env)))
                else:
                    self.val(k, env)
                    vs.append(self.val(v, env))
            return container(vs)
        if isinstance(e, (ast.ListComp, ast.SetComp, ast.GeneratorExp, ast.DictComp)):
            env2 = dict(env)
            for g in e.generators:
                self.assign(g.target, self.iter_elem(g.iter, env2), env2, e, loop=True)
                for c in g.ifs:
                    self.val(c, env2)
            if isinstance(e, ast.DictComp):
                self.val(e.key, env2)
                ev = self.val(e.value, env2)
            else:
                ev = self.val(e.elt, env2)
            return container([ev])
        if isinstance(e, ast.IfExp):
            self.val(e.test, env)
            return join(self.val_tv(e.body, env), self.val_tv(e.orelse, env))
        if isinstance(e, ast.BoolOp):
            return join(*[self.val(v, env) for v in e.values])
        if isinstance(e, ast.NamedExpr):
            v = self.val_tv(e.value, env)  # (a tuple result keeps its positions: `if (r := f()) is not None: return r`)
            if isinstance(e.target, ast.Name):
                env[e.target.id] = v
            return v
        if isinstance(e, ast.BinOp):
            if isinstance(e.op, ast.RShift):
                r = self._pipe(e.left, e.right, env)
                if r is not None:
                    return r
            a, b = self.val(e.left, env), self.val(e.right, env)
            # a new object built from both operands (list concatenation, expression node, dict union)
            return (frozenset({F}), frozenset(a[0] | a[1] | b[0] | b[1]) - {F} | {F}, frozenset(a[1] | a[2] | b[1] | b[2]))
        if isinstance(e, ast.UnaryOp):
            a = self.val(e.operand, env)
            return (frozenset({F}), frozenset(a[0] | a[1]), a[2])
        if isinstance(e, ast.Compare):
            vs = [self.val(e.left, env)] + [self.val(c, env) for c in e.comparators]
            j = join(*vs)
            return (frozenset({F}), frozenset(j[0] | j[1]), j[2])
        if isinstance(e, ast.Lambda):
            return FRESH
        if isinstance(e, ast.Starred):
            return self.val(e.value, env)
        if isinstance(e, (ast.Yield, ast.Await)):
            v = self.val(e.value, env) if e.value is not None else FRESH
            if isinstance(e, ast.Yield):
                yv = container([v])
                self.ret = join(self.ret, yv) if self.ret is not None else yv
            return FRESH
        if isinstance(e, ast.YieldFrom):
            v = self.val(e.value, env)
            yv = (frozenset({F}), v[1], v[2])
            self.ret = join(self.ret, yv) if self.ret is not None else yv
            return FRESH
        if isinstance(e, ast.Slice):
            return FRESH
        return FRESH

    def _pipe(self, left, right, env):
        """`tbl >> verb_fn(args)`: the @verb wrapper calls verb_fn(tbl, args)"""
        if not isinstance(right, ast.Call):
            return None
        cs = self.callable_of(right.func, env)
        if not cs:
            return None
        res = None
        for kind, tgt, bound in cs:
            if not isinstance(tgt, Fn) or isinstance(tgt.node, ast.Lambda):
                return None
            if not any((dotted(d) or "") == "verb" for d in tgt.node.decorator_list):
                return None
            lv = self.val(left, env)
            argvals = [(None, lv)] + [
                (("*", shift(self.val(a.value, env))) if isinstance(a, ast.Starred) else (None, self.val(a, env)))
                for a in right.args
            ]
            kwvals, starkw = {}, None
            for k in right.keywords:
                v = self.val(k.value, env)
                if k.arg is None:
                    starkw = shift(v) if starkw is None else join(starkw, shift(v))
                else:
                    kwvals[k.arg] = v
            self.local_stats["calls"] += 1
            self.local_stats["resolved"] += 1
            r = self._apply(right, tgt, "fn", bound, None, argvals, kwvals, starkw, env)
            res = r if res is None else join(res, r)
        return res

    # -- callables ---------------------------------------------------------------------------
    def callable_of(self, e, env):
        """[(kind, target, bound_kwargs)] describing a function value, or None"""
        if isinstance(e, ast.Lambda):
            f = self.eff.by_node.get(id(e))
            return [("fn", f, {})] if f else None
        if isinstance(e, ast.Name):
            if e.id in self.fnvals:
                return self.fnvals[e.id]
            if e.id in self.fn.binding:
                return [("fn", self.fn.binding[e.id], {})]
            if e.id in env:
                if e.id in self.fn.params or e.id in self.fn.captured:
                    return [("param", e.id, {})]
                return None
            tgt = self.eff.module_function(self.fn.module, e.id)
            if isinstance(tgt, Fn):
                return [("fn", tgt, {})]
            # nested function defined in an enclosing function
            pf = self.fn.parent_fn
            while pf is not None:
                for n in ast.walk(pf.node):
                    if isinstance(n, (ast.FunctionDef, ast.AsyncFunctionDef)) and n.name == e.id:
                        f = self.eff.by_node.get(id(n))
                        if f:
                            return [("fn", f, {})]
                pf = pf.parent_fn
            return None
        if isinstance(e, ast.Attribute):
            d = dotted(e)
            if d:
                head = d.split(".")[0]
                ci = self.eff.sym.resolve_class(self.fn.module, ".".join(d.split(".")[:-1])) if head not in env else None
                if ci is not None:
                    fs = self.eff.method(ci, e.attr)
                    if fs:
                        return [("unbound", f, {}) for f in fs]
                tgt = self.eff.module_function(self.fn.module, d) if head not in env else None
                if isinstance(tgt, Fn):
                    return [("fn", tgt, {})]
            return None
        if isinstance(e, ast.Call):
            fn = dotted(e.func) or ""
            if fn.split(".")[-1] in ("partial", "inverse_partial") and e.args:
                inner = self.callable_of(e.args[0], env)
                if inner:
                    kws = {}
                    for k in e.keywords:
                        if k.arg:
                            kws[k.arg] = k.value
                    return [(kind, t, {**b, **kws, "__pos__": list(b.get("__pos__", [])) + list(e.args[1:])}) for kind, t, b in inner]
        return None

    # -- calls ----------------------------------------------------------------------------------
    def call(self, e: ast.Call, env):
        self.local_stats["calls"] += 1
        argvals = []
        for a in e.args:
            if isinstance(a, ast.Starred):
                argvals.append(("*", shift(self.val(a.value, env))))
            else:
                argvals.append((None, self.val(a, env)))
        kwvals = {}
        starkw = None
        for k in e.keywords:
            v = self.val(k.value, env)
            if k.arg is None:
                starkw = shift(v) if starkw is None else join(starkw, shift(v))
            else:
                kwvals[k.arg] = v
        f = e.func
        fname = dotted(f)

        # ---- copy.copy / deepcopy
        if fname in ("copy.copy", "copy"):
            if argvals:
                v = argvals[0][1]
                return (frozenset({F}), v[1], v[2])
        if fname in ("copy.deepcopy", "deepcopy"):
            return FRESH
        if fname in ("setattr", "delattr") and argvals:
            self.write(argvals[0][1][0], e, f"`{norm(e)[:70]}`", env)
            return FRESH
        if fname == "isinstance" or fname == "hasattr" or fname == "len" or fname == "type":
            return FRESH
        if fname == "super":
            return pvec(self.fn.pos[0]) if self.fn.pos else FRESH

        if isinstance(f, ast.Attribute) and f.attr == "clone" and not e.args and not e.keywords:
            # AstNode.clone(): every node and every expression of the result is rebuilt (rule CLONE verifies the
            # _clone implementations field by field), so nothing reachable for writing is shared with the receiver
            self.val(f.value, env)
            self.local_stats["resolved"] += 1
            return FRESH

        # ---- rewriting primitives
        if isinstance(f, ast.Attribute) and f.attr in (PRIM_APPLY_ORIGINAL | PRIM_APPLY_COPIES | PRIM_REBUILD) and e.args:
            recv = self.val(f.value, env)
            cs = self.callable_of(e.args[0], env)
            self.local_stats["resolved"] += 1
            return self._primitive(e, f.attr, f.value, recv, cs, env)

        targets, recv_val, how = self.resolve(e, env)
        if isinstance(f, ast.Attribute) and f.attr in ("ftype", "dtype"):
            self.obs[id(e)] = {"node": e, "recv": recv_val if recv_val is not None else self.val(f.value, env)}
        for kind, tgt, bound in targets:
            if isinstance(tgt, Fn):
                self.edges.add(tgt.key)
            elif isinstance(tgt, ClassInfo):
                self.obs[id(e)] = {"node": e, "ctor": tgt, "args": [v for _, v in argvals], "kwargs": dict(kwvals)}
                for c in tgt.mro():
                    if "__init__" in c.methods:
                        i = self.eff.by_node.get(id(c.methods["__init__"]))
                        if i:
                            self.edges.add(i.key)
                        break
        if how == "library":
            self.local_stats["library"] += 1
            return self._library(e, fname, f, argvals, kwvals, env)
        self.local_stats["resolved"] += 1
        if how == "cha":
            self.local_stats["cha"] += 1
        res = None
        for kind, tgt, bound in targets:
            if kind == "param":
                # an unknown callable parameter: nothing is known here; callers resolve it (HOF primitives only)
                r = FRESH
            elif isinstance(tgt, ClassInfo):
                r = self._ctor(e, tgt, argvals, kwvals, starkw, env)
            else:
                r = self._apply(e, tgt, kind, bound, recv_val, argvals, kwvals, starkw, env)
            res = r if res is None else join(res, r)
        return res if res is not None else FRESH

    def _library(self, e, fname, f, argvals, kwvals, env):
        last = (fname or "").split(".")[-1] if fname else (f.attr if isinstance(f, ast.Attribute) else "")
        allv = [v for _, v in argvals] + list(kwvals.values())
        if isinstance(f, ast.Attribute):
            recv = self.val(f.value, env)
            if last in BUILTIN_MUTATORS:
                self.write(recv[0], e, f"`{norm(e)[:70]}` (container mutator)", env)
                if last in ("pop", "popitem", "setdefault"):
                    return shift(recv)
                return FRESH
            if last in ALIASING_METHODS:
                if last == "copy":
                    return (frozenset({F}), recv[1], recv[2])
                if last in ("items", "values", "keys"):
                    return (frozenset({F}), recv[1], recv[2])
                return join(shift(recv), *[shift(v) for v in allv]) if last in ("union", "intersection", "difference") else shift(recv)
            if last == "join":
                return FRESH
            # a method of a library object (polars / sqlalchemy / str): fresh result
            return FRESH
        if last == "map" and e.args and dotted(e.args[0]) in ("copy.copy", "copy"):
            # map(copy.copy, xs): a fresh iterator over fresh shells of the elements (like [copy.copy(x) for x in xs])
            els = join(*[shift(v) for v in allv[1:]]) if len(allv) > 1 else NOTHING
            return (frozenset({F}), frozenset({F}), frozenset(els[1] | els[2]))
        if last in ALIASING_FUNCS:
            if last in ("next", "min", "max", "reduce"):
                return join(*[shift(v) for v in allv]) if allv else FRESH
            if last == "getattr":
                return shift(allv[0]) if allv else FRESH
            if last == "cast" and len(allv) >= 2:
                return allv[1]
            # fresh container / iterator over the arguments' elements
            els = join(*[shift(v) for v in allv]) if allv else NOTHING
            if last in ("zip", "enumerate", "product"):
                return (frozenset({F}), frozenset({F}), frozenset(els[0] | els[1] | els[2]))
            return (frozenset({F}), els[0], frozenset(els[1] | els[2]))
        return FRESH

    def resolve(self, e: ast.Call, env):
        """-> (targets [(kind, Fn|ClassInfo|name, bound)], receiver value or None, how)"""
        f = e.func
        eff = self.eff
        m = self.fn.module
        if isinstance(f, ast.Name):
            cs = self.callable_of(f, env)
            if cs:
                return cs, None, "direct"
            tgt = eff.module_function(m, f.id) if f.id not in env else None
            if isinstance(tgt, ClassInfo):
                return [("ctor", tgt, {})], None, "direct"
            # class defined in an enclosing scope / same module
            ci = eff.sym.resolve_class(m, f.id) if f.id not in env else None
            if ci is not None:
                return [("ctor", ci, {})], None, "direct"
            return [], None, "library"
        if isinstance(f, ast.Attribute):
            name = f.attr
            base = f.value
            # super().m(...)
            if isinstance(base, ast.Call) and dotted(base.func) == "super" and self.fn.cls is None and self.fn.parent_fn is None:
                pass
            if isinstance(base, ast.Call) and dotted(base.func) == "super":
                cls = self._enclosing_class()
                if cls is not None:
                    for b in cls.mro()[1:]:
                        if name in b.methods:
                            fn2 = eff.by_node.get(id(b.methods[name]))
                            if fn2:
                                return [("method", fn2, {})], pvec(self.fn.pos[0]) if self.fn.pos else FRESH, "direct"
                return [], None, "library"
            d = dotted(f)
            head = d.split(".")[0] if d else None
            if d and head not in env:
                # module.function / Class.method / module.Class
                tgt = eff.module_function(m, d)
                if isinstance(tgt, Fn):
                    kind = "unbound" if tgt.cls is not None and not tgt.is_static and not tgt.is_classmethod else "fn"
                    if tgt.is_classmethod:
                        kind = "classmethod"
                    return [(kind, tgt, {})], None, "direct"
                if isinstance(tgt, ClassInfo):
                    return [("ctor", tgt, {})], None, "direct"
                ci = eff.sym.resolve_class(m, ".".join(d.split(".")[:-1]))
                if ci is not None:
                    fs = eff.method(ci, name, with_overrides=False)
                    if fs:
                        f0 = fs[0]
                        kind = "classmethod" if f0.is_classmethod else "fn" if f0.is_static else "unbound"
                        return [(kind, f0, {})], None, "direct"
                full = eff.sym.resolve_name(m, head)
                if full is not None and not full.startswith("pydiverse.transform"):
                    return [], None, "library"
                if m.imports.get(head) and not (m.imports[head].startswith("pydiverse.transform")):
                    return [], None, "library"
            recv = self.val(base, env)
            # self.m / cls.m : MRO + overrides
            if isinstance(base, ast.Name) and self.fn.pos and base.id == self.fn.pos[0] and self._enclosing_class() is not None:
                cls = self._enclosing_class()
                fs = eff.method(cls, name)
                if fs:
                    out = []
                    for fn2 in fs:
                        kind = "classmethod" if fn2.is_classmethod else "fn" if fn2.is_static else "method"
                        out.append((kind, fn2, {}))
                    return out, recv, "direct"
            if name == "update" and self._is_cache_receiver(base):
                fs = [x for x in eff.methods_by_name.get("update", []) if x.cls is not None and x.cls.name == "Cache"]
                if fs:
                    return [("method", fs[0], {})], recv, "direct"
            if name in BUILTIN_MUTATORS or name in ALIASING_METHODS:
                return [], recv, "library"
            fs = eff.methods_by_name.get(name, [])
            if fs:
                out = []
                for fn2 in fs:
                    kind = "classmethod" if fn2.is_classmethod else "fn" if fn2.is_static else "method"
                    out.append((kind, fn2, {}))
                return out, recv, "cha"
            return [], recv, "library"
        if isinstance(f, ast.Call):
            # g(...)(...) : e.g. get_impl(...)(args), decorator factories
            self.val(f, env)
            return [], None, "library"
        return [], None, "library"

    def _is_cache_receiver(self, base) -> bool:
        t = norm(base)
        if t.endswith("_cache") or t.endswith("cache") and "." not in t:
            return True
        if isinstance(base, ast.Call) and (dotted(base.func) or "").endswith("from_ast"):
            return True
        cls = self._enclosing_class()
        return cls is not None and cls.name == "Cache" and t == "self"

    def _enclosing_class(self) -> ClassInfo | None:
        fn = self.fn
        while fn is not None:
            if fn.cls is not None:
                return fn.cls
            fn = fn.parent_fn
        # nested function inside a method
        p = parent(self.fn.node)
        while p is not None:
            if isinstance(p, ast.ClassDef):
                return self.eff.sym.classes.get(f"{self.fn.module.name}.{p._qualname}")
            p = parent(p)
        return None

    def _bind(self, tgt: Fn, kind, bound, recv_val, argvals, kwvals, starkw, env):
        """parameter name -> value vector at this call site (None = not supplied)"""
        argmap: dict = {}
        pos = list(tgt.pos)
        supplied_pos = []
        for extra in bound.get("__pos__", []):
            supplied_pos.append((None, self.val(extra, env)))
        if kind == "method":
            if pos:
                argmap[pos[0]] = recv_val if recv_val is not None else FRESH
                pos = pos[1:]
        elif kind == "classmethod":
            if pos:
                argmap[pos[0]] = FRESH
                pos = pos[1:]
        supplied_pos += list(argvals)
        i = 0
        for star, v in supplied_pos:
            if star == "*":
                # spread over the remaining positionals and *args
                for p in pos[i:]:
                    argmap[p] = join(argmap.get(p), v)
                if tgt.vararg:
                    argmap[tgt.vararg] = join(argmap.get(tgt.vararg), container([v]))
                i = len(pos)
                continue
            if i < len(pos):
                argmap[pos[i]] = v
                i += 1
            elif tgt.vararg:
                argmap[tgt.vararg] = join(argmap.get(tgt.vararg), container([v]))
        for k, v in kwvals.items():
            if k in tgt.pos or k in tgt.kwonly:
                argmap[k] = v
            elif tgt.kwarg:
                argmap[tgt.kwarg] = join(argmap.get(tgt.kwarg), container([v]))
        for k, vexpr in bound.items():
            if k == "__pos__":
                continue
            if k in tgt.pos or k in tgt.kwonly:
                argmap[k] = self.val(vexpr, env)
        if starkw is not None:
            for p in tgt.pos + tgt.kwonly:
                if p not in argmap:
                    argmap[p] = starkw
            if tgt.kwarg:
                argmap[tgt.kwarg] = join(argmap.get(tgt.kwarg), container([starkw]))
        # captured variables of nested functions are extra parameters, bound to the current values
        for c in tgt.captured:
            if c in env:
                argmap[c] = env[c]
            elif c in self.fn.captured or c in self.fn.params:
                argmap[c] = pvec(c)
            else:
                argmap[c] = FRESH
        return argmap

    def _none_passed(self, tgt: Fn, cond: str, e: ast.Call, bound) -> bool:
        """is the optional parameter `cond` of the callee omitted or literally None at this call?"""
        for k in e.keywords:
            if k.arg == cond:
                return isinstance(k.value, ast.Constant) and k.value.value is None
        if cond in bound:
            v = bound[cond]
            return isinstance(v, ast.Constant) and v.value is None
        if any(k.arg is None for k in e.keywords):
            return False
        if cond in tgt.pos:
            idx = tgt.pos.index(cond) - (1 if tgt.is_method else 0)
            if 0 <= idx < len(e.args):
                a = e.args[idx]
                return isinstance(a, ast.Constant) and a.value is None
        return True

    def _apply(self, e, tgt: Fn, kind, bound, recv_val, argvals, kwvals, starkw, env):
        if tgt is None:
            return FRESH
        self.edges.add(tgt.key)
        argmap = self._bind(tgt, kind if kind in ("method", "classmethod") else "fn", bound, recv_val, argvals, kwvals, starkw, env)
        # effects of the callee
        for p, ws in tgt.mut.items():
            a = argmap.get(p)
            if a is None:
                continue
            for (k, cond), w in ws.items():
                new_cond = None
                if cond is not None:
                    if self._none_passed(tgt, cond, e, bound):
                        continue
                    # the condition is handed through when the caller forwards its own optional parameter
                    for kw in e.keywords:
                        if kw.arg == cond and isinstance(kw.value, ast.Name):
                            d = self.fn.defaults.get(kw.value.id)
                            if isinstance(d, ast.Constant) and d.value is None:
                                new_cond = kw.value.id
                origins = a[k] if k < 2 else a[2]
                self.write(origins, e, w.desc, env, chain=w.chain, cond_override=new_cond, site=w.site)
        for key, w in tgt.gw.items():
            if key not in self.gw:
                self.gw[key] = w.extend(self.fn.label)
        return subst(tgt.ret, argmap) if tgt.ret_known else FRESH

    def _ctor(self, e, ci: ClassInfo, argvals, kwvals, starkw, env):
        allv = [v for _, v in argvals] + list(kwvals.values()) + ([starkw] if starkw is not None else [])
        init = None
        for c in ci.mro():
            if "__init__" in c.methods:
                init = self.eff.by_node.get(id(c.methods["__init__"]))
                break
        if init is not None:
            argmap = self._bind(init, "method", {}, FRESH, argvals, kwvals, starkw, env)
            for p, ws in init.mut.items():
                if p == (init.pos[0] if init.pos else None):
                    continue
                a = argmap.get(p)
                if a is None:
                    continue
                for (k, cond), w in ws.items():
                    if cond is not None and self._none_passed(init, cond, e, {}):
                        continue
                    self.write(a[k] if k < 2 else a[2], e, w.desc, env, chain=w.chain, site=w.site)
        j = join(*allv) if allv else NOTHING
        return (frozenset({F}), frozenset(j[0] | {F}), frozenset(j[1] | j[2] | {F}))

    def _primitive(self, e, prim, recv_expr, recv, cs, env):
        """map_children / map_col_roots / map_col_nodes / map_subtree with a callable argument"""
        results = []
        if prim in PRIM_APPLY_ORIGINAL | PRIM_APPLY_COPIES:
            self.write(recv[0], e, f"`{norm(e)[:60]}` rebinds the receiver's children", env)
        applied = shift(recv) if prim in PRIM_APPLY_ORIGINAL else FRESH if prim in (PRIM_APPLY_COPIES | PRIM_REBUILD) else shift(recv)
        if prim in PRIM_REBUILD | PRIM_APPLY_COPIES:
            # g sees a fresh copy of every node whose children were already rebuilt
            applied = FRESH
        for kind, tgt, bound in cs or []:
            if kind == "param":
                # the callable is one of our own parameters: remember that it is applied (callers decide)
                results.append(FRESH)
                continue
            if not isinstance(tgt, Fn):
                continue
            # partial(ColExpr.map_subtree, g=g): the children are rebuilt by map_subtree itself
            if tgt.name in PRIM_REBUILD and "g" in bound:
                inner = self.callable_of(bound["g"], env)
                for k2, t2, b2 in inner or []:
                    if isinstance(t2, Fn):
                        results.append(self._apply_callable(e, t2, k2, b2, FRESH, env))
                    else:
                        results.append(FRESH)
                continue
            results.append(self._apply_callable(e, tgt, kind, bound, applied, env))
        res = join(*results) if results else FRESH
        if prim in PRIM_REBUILD:
            return (frozenset(res[0] | {F}) - set(), frozenset(res[1] | {F}), frozenset(res[2] | {F})) if results else FRESH
        # strong update: the receiver's content now consists of g's results
        root = dotted(recv_expr)
        if root is not None and root in env and "." not in root:
            cur = env[root]
            env[root] = (cur[0], frozenset(res[0] | {F}), frozenset(res[1] | res[2] | {F}))
            for k in [k for k in env if k.startswith(root + ".")]:
                del env[k]
        return FRESH

    def _apply_callable(self, e, tgt: Fn, kind, bound, applied, env):
        first = None
        pos = list(tgt.pos)
        if kind in ("method",) and pos:
            pos = pos[1:]
        n_bound_pos = len(bound.get("__pos__", []))
        free = [p for p in pos if p not in bound][n_bound_pos:]
        argvals = [(None, applied)]
        return self._apply(e, tgt, "unbound" if kind == "unbound" else "fn", bound, None, argvals, {}, None, env)

    def _post_call_update(self, call, env):
        return env


# ---------------------------------------------------------------------------------------------
# entry points


INTERNAL_PRIMITIVES = {
    "map_children": "rewriting primitive; receivers are judged at every call site",
    "map_subtree": "rebuilds the tree from copies (structure verified by rule PRIM)",
    "map_col_roots": "rewriting primitive of verb nodes; receivers are judged at every call site",
    "map_col_nodes": "rewriting primitive of verb nodes; receivers are judged at every call site",
}


def public_entry_points(eff: Effects):
    """(Fn, why) for every function a user can call: the __all__ chains of the public modules, public and
    dunder methods of the exported classes and of the classes they hand out"""
    repo, sym = eff.repo, eff.sym
    entries: dict[tuple, tuple] = {}
    classes: list[ClassInfo] = []

    def add_fn(fn: Fn, why):
        if fn is not None and fn.key not in entries:
            entries[fn.key] = (fn, why)

    for pub in ("pydiverse.transform", "pydiverse.transform.common", "pydiverse.transform.extended", "pydiverse.transform.base"):
        m = repo.modules.get(pub)
        if m is None:
            raise AnalysisError(f"A3: public module {pub} not found")
        for name, tgt in m.imports.items():
            if name == "*" or not tgt.startswith("pydiverse.transform"):
                continue
            obj = eff.lookup_full(sym.canonical(tgt))
            if isinstance(obj, Fn):
                add_fn(obj, f"exported by {pub}")
            elif isinstance(obj, ClassInfo):
                classes.append(obj)
    # classes handed out by the API
    for extra in ("ColFn", "CaseExpr", "Cast", "LiteralCol", "ColName", "Col", "EvalAligned", "Series", "WhenClause",
                  "StrNamespace", "DtNamespace", "DurNamespace", "ListNamespace", "Accessor", "Pipeable", "MC"):  # fmt: skip
        c = sym.by_name.get(extra)
        if c:
            classes.extend(c)
    seen = set()
    for ci in classes:
        for c in [ci] + ci.descendants():
            if c.qual in seen:
                continue
            seen.add(c.qual)
            for mc in c.mro():
                for name, node in mc.methods.items():
                    if name.startswith("_") and not (name.startswith("__") and name.endswith("__")):
                        continue
                    if name in INTERNAL_PRIMITIVES:
                        continue
                    add_fn(eff.by_node.get(id(node)), f"method of public class {c.name}")
    # every @verb in pipe/verbs.py is callable through the pipe even when not re-exported
    vm = repo.mod("pipe.verbs")
    for q, node in vm.defs.items():
        if isinstance(node, ast.FunctionDef) and "." not in q:
            if any((dotted(d) or "") == "verb" for d in node.decorator_list):
                add_fn(eff.by_node.get(id(node)), "@verb in pipe/verbs.py")
    return list(entries.values())
