"""A11 - overload model.

The declaration tables (operator signatures, ``IMPLICIT_CONVS`` ...) come from the
catalogue folder (A2), i.e. from the current source.  The *matching rule* is written
out here as a model of ``ops/signature.py`` and of ``converts_to`` /
``conversion_cost`` / ``implicit_conversions`` / ``lca_type`` in ``tree/types.py``:

 M1 a const parameter accepts only const arguments;  M2 a candidate needs every
 position to convert;  M3 a type variable binds at its first occurrence to each
 implicit-conversion target of the argument;  M4 varargs repeat the last parameter;
 M5 distance = component-wise sum of conversion costs, compared lexicographically;
 M6 the best candidate must be unique (the library asserts it).

The matcher functions themselves are modelled, not analysed: a change to them is
outside this check's reach (stated in the evidence).  Python-level failures the real
code would hit (missing table entry -> KeyError, ``None > int``) surface as
``InternalError``.
"""

from __future__ import annotations

from .catalogue import DT, Catalogue, Op


class InternalError(Exception):
    pass


class Ambiguous(Exception):
    def __init__(self, best, cands):
        self.best = best
        self.cands = cands


class Model:
    def __init__(self, cat: Catalogue):
        self.cat = cat
        T = cat.types
        self.T = T
        self.CONV = T.IMPLICIT_CONVS
        self.FLOAT_SUBTYPES = tuple(T.FLOAT_SUBTYPES)
        self.String = DT("String")
        self.Float = DT("Float")
        self.Decimal = DT("Decimal")
        self._tries: dict[str, dict] = {}

    # -- tree/types.py -------------------------------------------------------------
    @staticmethod
    def is_const(t):
        return t.cls == "Const"

    @staticmethod
    def wc(t):
        return t.base if t.cls == "Const" else t

    @staticmethod
    def with_const(t):
        return t if t.cls == "Const" else DT("Const", t)

    def converts_to(self, source: DT, target: DT) -> bool:
        if self.is_const(target):
            return self.is_const(source) and self.converts_to(self.wc(source), self.wc(target))
        source = self.wc(source)
        if source.cls == "List":
            return target.cls == "List" and self.converts_to(source.inner, target.inner)
        if source.isinstance("String"):
            if target == source or target == self.String:
                return True
            if target.cls == "String" and source.max_length is not None:
                if target.max_length is None:
                    raise InternalError("None > int in converts_to (String max_length)")
                return target.max_length > source.max_length
            return False
        if source.cls == "Decimal":
            return (
                target == source
                or target in self.FLOAT_SUBTYPES
                or target == self.Float
                or target == self.Decimal
                or (target.cls == "Decimal" and target.scale >= source.scale and (target.precision - target.scale >= source.precision - source.scale))
            )
        if source not in self.CONV:
            raise InternalError(f"KeyError IMPLICIT_CONVS[{source!r}] in converts_to")
        return target in self.CONV[source]

    def conversion_cost(self, dtype: DT, target: DT):
        if self.is_const(target):
            if not self.is_const(dtype):
                raise InternalError("assert is_const(dtype) in conversion_cost")
            return self.conversion_cost(self.wc(dtype), self.wc(target))
        dtype = self.wc(dtype)
        if dtype.cls == "List":
            if target.cls != "List":
                raise InternalError("AttributeError target.inner in conversion_cost")
            return self.conversion_cost(dtype.inner, target.inner)
        if dtype.isinstance("String") or dtype.cls == "Decimal":
            return (0, 0) if dtype == target else (0, 1) if dtype.cls == target.cls else (0, 2)
        try:
            return self.CONV[dtype][target]
        except KeyError:
            raise InternalError(f"KeyError IMPLICIT_CONVS[{dtype!r}][{target!r}] in conversion_cost") from None

    def implicit_conversions(self, dtype: DT):
        if dtype.cls == "List":
            return [DT("List", inner) for inner in self.implicit_conversions(dtype.inner)]
        if dtype.isinstance("String"):
            return [self.String] + ([dtype] if dtype.max_length is not None else [])
        if dtype.cls == "Decimal":
            return list(self.FLOAT_SUBTYPES) + [self.Float] + ([dtype] if dtype != self.Decimal else [])
        if dtype not in self.CONV:
            raise InternalError(f"KeyError IMPLICIT_CONVS[{dtype!r}] in implicit_conversions")
        return list(self.CONV[dtype].keys())

    # -- ops/signature.py -----------------------------------------------------------
    def trie(self, op: Op):
        if op.var in self._tries:
            return self._tries[op.var]
        root = {"children": {}, "data": None, "has": False}
        for s in op.signatures:
            self._insert(root, list(s.types), s.return_type, s.is_vararg, None, op)
        self._tries[op.var] = root
        return root

    def _insert(self, node, sig, data, vararg, last_type, op):
        if len(sig) == 1 and vararg:
            if last_type is None:
                raise InternalError(f"assert isinstance(last_type, Dtype) inserting {op.var}")
            node["children"][last_type] = node
            sig = []
        if len(sig) == 0:
            if node["has"]:
                raise InternalError(f"assert self.data is None: duplicate signature for {op.var}")
            node["data"] = data
            node["has"] = True
            return
        if sig[0] not in node["children"]:
            node["children"][sig[0]] = {"children": {}, "data": None, "has": False}
        self._insert(node["children"][sig[0]], sig[1:], data, vararg, sig[0], op)

    def all_matches(self, node, sig, tyvars):
        if len(sig) == 0:
            if not node["has"]:
                # SignatureTrie returns ([], None) for an inner node: data None -> later return_type None
                return [([], None)]
            d = node["data"]
            if d is not None and d.cls == "Tyvar":
                d = tyvars[d.name]
            elif d is not None and d.cls == "List" and d.inner.cls == "Tyvar":
                pass
            return [([], d)]
        matches = []
        tyvar = None
        for dtype, child in node["children"].items():
            base = self.wc(dtype)
            match_dtype = tyvars[base.name] if base.cls == "Tyvar" and base.name in tyvars else dtype
            if self.is_const(dtype):
                match_dtype = self.with_const(match_dtype)  # Const(S) stays const after S is bound
            if self.wc(match_dtype).cls == "Tyvar":
                if tyvar is not None:
                    raise InternalError("assert tyvar is None (two type variables at one trie node)")
                tyvar = dtype
            elif self.converts_to(sig[0], match_dtype):
                matches.extend(([match_dtype] + ms, data) for ms, data in self.all_matches(child, sig[1:], tyvars))
        if tyvar is not None:
            already = {self.wc(m[0][0]) for m in matches}
            for dtype in self.implicit_conversions(self.wc(sig[0])):
                match_dtype = self.with_const(dtype) if self.is_const(tyvar) else dtype
                if dtype not in already and self.converts_to(sig[0], match_dtype):
                    matches.extend(
                        ([match_dtype] + ms, data)
                        for ms, data in self.all_matches(node["children"][tyvar], sig[1:], {**tyvars, self.wc(tyvar).name: match_dtype})
                    )
        return matches

    def sig_distance(self, sig, target):
        if len(sig) != len(target):
            raise InternalError("zip strict in sig_distance")
        costs = [self.conversion_cost(s, t) for s, t in zip(sig, target)]
        if not costs:
            return ()
        return tuple(sum(z) for z in zip(*costs))

    def best_match(self, op: Op, sig):
        """returns None (no candidate) or (matched signature, return type); raises Ambiguous / InternalError"""
        cands = [m for m in self.all_matches(self.trie(op), list(sig), {}) if True]
        if not cands:
            return None
        dists = [self.sig_distance(sig, c[0]) for c in cands]
        best = min(dists)
        n_best = sum(1 for d in dists if d == best)
        if n_best != 1:
            raise Ambiguous(best, [c for c, d in zip(cands, dists) if d == best])
        return cands[dists.index(best)]

    # -- lca_type ---------------------------------------------------------------------
    def lca_type(self, dtypes):
        dtypes = [self.wc(t) for t in dtypes if t.cls != "NullType"]
        if not dtypes:
            return DT("NullType")
        if dtypes[0].cls == "List":
            if any(t.cls != "List" for t in dtypes):
                return None
            inner = self.lca_type([t.inner for t in dtypes])
            return None if inner is None else DT("List", inner)
        if any(t.isinstance("String") for t in dtypes):
            if all(t == dtypes[0] for t in dtypes):
                return dtypes[0]
            if all(t.isinstance("String") for t in dtypes):
                return self.String
            return None
        if any(t.cls == "Decimal" for t in dtypes):
            if all(t == dtypes[0] for t in dtypes):
                return dtypes[0]
            if all(t.cls == "Decimal" for t in dtypes):
                pd = max(t.precision - t.scale for t in dtypes)
                sc = max(t.scale for t in dtypes)
                return DT("Decimal", pd + sc, sc)
            return None
        for t in dtypes:
            if t not in self.CONV:
                raise InternalError(f"KeyError IMPLICIT_CONVS[{t!r}] in lca_type")
        common = set(self.CONV[dtypes[0]].keys())
        for t in dtypes[1:]:
            common &= set(self.CONV[t].keys())
        if not common:
            return None
        common = list(common)
        dists = [self.sig_distance(dtypes, [a] * len(dtypes)) for a in common]
        best = min(dists)
        if sum(1 for d in dists if d == best) != 1:
            raise Ambiguous(best, [a for a, d in zip(common, dists) if d == best])
        return common[dists.index(best)]


def family(t: DT) -> str:
    t = t.base if t.cls == "Const" else t
    if t.isinstance("Int"):
        return "Int"
    if t.isinstance("Float"):
        return "Float"
    if t.isinstance("String"):
        return "String"
    if t.cls == "List":
        return "List"
    return t.cls


class SrcModel(Model):
    """the same interface, but every type-level function is the *interpreted source* of tree/types.py and
    ops/signature.py (typefns.SourceTypes); the hand-written model above remains as an independent cross-check
    (rule XMODEL).  PyRaise is mapped onto the model's outcome classes:
    DataTypeError -> rejection (None), the uniqueness assertion of best_signature_match -> Ambiguous, anything
    else -> InternalError carrying the Python exception name."""

    def __init__(self, cat: Catalogue):
        super().__init__(cat)
        from .typefns import PyRaise, SourceTypes

        self.S = SourceTypes(cat)
        self.PyRaise = PyRaise

    def _wrap(self, fn, *a):
        try:
            return fn(*a)
        except self.PyRaise as p:
            raise InternalError(f"{p.name}: {p.msg} [{getattr(p.node, 'lineno', '?')}]") from None

    def converts_to(self, source, target):
        return self._wrap(self.S.converts_to, source, target)

    def conversion_cost(self, dtype, target):
        return self._wrap(self.S.conversion_cost, dtype, target)

    def implicit_conversions(self, dtype):
        return self._wrap(self.S.implicit_conversions, dtype)

    def sig_distance(self, sig, target):
        return self._wrap(self.S.sig_distance, sig, target)

    def best_match(self, op, sig):
        try:
            r = self.S.best_match(op, sig)
        except self.PyRaise as p:
            if p.name == "AssertionError" and "sum(" in p.msg and "== 1" in p.msg:
                # the uniqueness assertion: collect the tied candidates for the report
                cands = self.S.all_matches(op, sig)
                dists = [self.S.sig_distance(sig, c[0]) for c in cands]
                best = min(dists)
                raise Ambiguous(best, [c for c, d in zip(cands, dists) if d == best]) from None
            raise InternalError(f"{p.name}: {p.msg} [{getattr(p.node, 'lineno', '?')}]") from None
        if r is None:
            return None
        return (list(r[0]), r[1])

    def lca_type(self, dtypes):
        try:
            return self.S.lca_type(dtypes)
        except self.PyRaise as p:
            if p.name == "DataTypeError":
                return None
            if p.name == "AssertionError" and "sum(" in p.msg and "== 1" in p.msg:
                raise Ambiguous(None, []) from None
            raise InternalError(f"{p.name}: {p.msg} [{getattr(p.node, 'lineno', '?')}]") from None


class HybridModel(SrcModel):
    """pair-level functions (converts_to, conversion_cost, implicit_conversions) and lca_type come from the
    interpreted source; the trie walk / best-candidate selection is the hand-written model M2-M6 (fast), which rule
    XMODEL compares with the interpreted SignatureTrie on a subset (quick) / the whole universe (thorough)."""

    def __init__(self, cat):
        super().__init__(cat)
        self._pc: dict = {}

    def _cached(self, name, fn, *a):
        k = (name, a)
        r = self._pc.get(k)
        if r is None:
            try:
                r = ("v", fn(*a))
            except InternalError as e:
                r = ("e", e)
            self._pc[k] = r
        if r[0] == "e":
            raise r[1]
        return r[1]

    def converts_to(self, source, target):
        return self._cached("ct", SrcModel.converts_to.__get__(self), source, target)

    def conversion_cost(self, dtype, target):
        return self._cached("cc", SrcModel.conversion_cost.__get__(self), dtype, target)

    def implicit_conversions(self, dtype):
        return self._cached("ic", SrcModel.implicit_conversions.__get__(self), dtype)

    sig_distance = Model.sig_distance
    best_match = Model.best_match

    def src_best_match(self, op, sig):
        return SrcModel.best_match(self, op, sig)
