"""pdtsa - repository-specific static analysis of pydiverse.transform (stdlib only)."""
