"""Back-end implementation functions interpreted over the free term algebra of their target library.

An ``@impl`` function (or a helper of a compiler) maps compiled argument expressions to an expression of SQLAlchemy /
Polars.  Interpreted from source (interp.Interp) with symbolic arguments (``Var``) and a symbolic third-party namespace
(``SymNS``), it *returns the term it builds* - whatever local names, helper variables, early returns or computed callees
the source uses.  Rules then state the documented meaning as a predicate on that term (``LAG(x, |n|)`` for a positive
shift ...), not on the spelling of the function.  Control flow on a symbolic value raises ``SymbolicBranch``: the
obligation is then undecided, never violated.
"""

from __future__ import annotations

import ast

from .catalogue import _ModuleNS
from .interp import ExcCtor, Func, Interp, NoOp, PyRaise, SymbolicBranch, SymNS, Term, Var  # noqa: F401
from .source import AnalysisError

THIRD_PARTY = ("sqlalchemy", "polars", "pyarrow", "numpy", "pandas")


class TermWorld:
    def __init__(self, mod, types_env=None, extra=None):
        self.mod = mod
        self.env: dict = {}
        self.it = Interp(mod, self.env)
        self.it.memo_enabled = False
        for st in mod.tree.body:
            self._bind_import(st)
        for e in ("TypeError", "ValueError", "KeyError", "AssertionError", "NotImplementedError", "NotSupportedError", "DataTypeError", "FunctionTypeError"):
            self.env.setdefault(e, ExcCtor(e))
        if types_env is not None:
            from .typefns import LazyNS

            self.env["types"] = LazyNS(dict(types_env))
        self.env.update(extra or {})
        defs = {}
        for st in mod.tree.body:
            if isinstance(st, (ast.FunctionDef, ast.ClassDef)):
                defs[st.name] = st
            elif isinstance(st, ast.With):  # `with Store.impl_manager as impl:` blocks hold the @impl functions
                for s2 in st.body:
                    if isinstance(s2, ast.FunctionDef):
                        defs.setdefault(s2.name, s2)
            elif isinstance(st, ast.Assign) and len(st.targets) == 1 and isinstance(st.targets[0], ast.Name) and isinstance(st.value, ast.Constant):
                self.env.setdefault(st.targets[0].id, st.value.value)
        self.defs = defs

        def resolve(name):
            if name in defs:
                d = defs[name]
                v = Func(d, self.env, self.it) if isinstance(d, ast.FunctionDef) else self.it.make_class(d, self.env)
                self.env[name] = v
                return v
            raise KeyError(name)

        self.it.global_resolver = resolve

    def _bind_import(self, st):
        if isinstance(st, ast.Import):
            for a in st.names:
                root = a.name.split(".")[0]
                nm = a.asname or root
                if root in THIRD_PARTY:
                    self.env[nm] = SymNS(nm)
                elif root in ("itertools", "functools", "operator", "math"):
                    import importlib

                    mod_ = importlib.import_module(root)
                    self.env[nm] = _ModuleNS({k: getattr(mod_, k) for k in dir(mod_) if not k.startswith("_")})
        elif isinstance(st, ast.ImportFrom):
            root = (st.module or "").split(".")[0]
            for a in st.names:
                nm = a.asname or a.name
                if root in THIRD_PARTY:
                    self.env[nm] = SymNS(nm)
                elif root in ("functools", "operator", "itertools", "math"):
                    import importlib

                    self.env[nm] = getattr(importlib.import_module(st.module), a.name, None)
        elif isinstance(st, (ast.If, ast.Try)):
            for s2 in ast.walk(st):
                if isinstance(s2, (ast.Import, ast.ImportFrom)) and s2 is not st:
                    self._bind_import(s2)

    def run(self, fn_node, args, kwargs=None, self_obj=None):
        """-> ('term', value) | ('raise', exception name, message) ; AnalysisError / SymbolicBranch propagate"""
        f = Func(fn_node, self.env, self.it)
        try:
            return ("term", self.it.call(f, list(args), dict(kwargs or {}), fn_node, self.env))
        except PyRaise as p:
            return ("raise", p.name, p.msg)


def fn_name(t):
    """last component of the constructor path of a term (`sqa.func.LAG` -> `LAG`)"""
    return t.fn.split(".")[-1] if isinstance(t, Term) else None


def find(t, pred):
    from .interp import _walk_terms

    return [x for x in _walk_terms(t) if isinstance(x, Term) and pred(x)]
