"""Normal form of the library source that every analysis runs on.

Behaviour-preserving rewrites a maintainer makes all the time must not change a verdict.  Instead of
teaching each rule every spelling, the parsed modules are brought into one normal form first (layout, comments
and quoting are already gone after parsing).  All steps are semantics-preserving for the constructs they match
(pure expressions / fresh accumulators); they are applied to a *copy for analysis* - reports still carry the
line numbers of the original nodes that survive.

 N1  `t = E; return t`                                  -> `return E`
 N2  single-assignment, single-use temporary read by the next statement -> inlined
 N3  two-armed conditionals with a negative test         -> positive test, arms swapped
 N4  `{**a, **b}` -> `a | b`;  `[*a, *b]` -> `a + b`;  `not (x in y)` -> `x not in y` ...
 N5  accumulator loops  `acc = []; for T in I: [if C:] acc.append(E)`  -> `acc = [E for T in I if C]`
     (lists, sets, dicts; several loops into one accumulator -> `+` / `|`; a copied initial value is kept)
 N6  `if c: x = A else: x = B` -> `x = A if c else B` (not for isinstance dispatch)
 N8  `for ..: if C: continue; rest` -> `for ..: if not C: rest`
 N9  private helper functions that do not exist in the reference snapshot (i.e. were extracted by a refactoring)
     are inlined at their call sites when they are expression helpers (`return <expr>`) or straight-line
     statement helpers
"""

from __future__ import annotations

import ast
import copy

_NEG = {ast.NotEq: ast.Eq, ast.IsNot: ast.Is, ast.NotIn: ast.In}
_POS = {v: k for k, v in _NEG.items()}


def _u(n):
    return " ".join(ast.unparse(n).split())


def negate(t):
    """syntactic negation in simplest form"""
    if isinstance(t, ast.UnaryOp) and isinstance(t.op, ast.Not):
        return t.operand
    if isinstance(t, ast.Compare) and len(t.ops) == 1:
        op = type(t.ops[0])
        flip = _NEG.get(op) or _POS.get(op)
        if flip is not None:
            return ast.copy_location(ast.Compare(left=t.left, ops=[flip()], comparators=t.comparators), t)
    return ast.copy_location(ast.UnaryOp(op=ast.Not(), operand=t), t)


def positive(t):
    if isinstance(t, ast.UnaryOp) and isinstance(t.op, ast.Not):
        return t.operand
    if isinstance(t, ast.Compare) and len(t.ops) == 1 and type(t.ops[0]) in _NEG:
        return ast.copy_location(ast.Compare(left=t.left, ops=[_NEG[type(t.ops[0])]()], comparators=t.comparators), t)
    return None


def _blocks(fn):
    for owner in ast.walk(fn):
        for field in ("body", "orelse", "finalbody"):
            blk = getattr(owner, field, None)
            if isinstance(blk, list) and blk and isinstance(blk[0], ast.stmt):
                yield owner, field, blk
        if isinstance(owner, ast.Try):
            for h in owner.handlers:
                yield h, "body", h.body


def _params(fn):
    a = fn.args
    return {x.arg for x in a.posonlyargs + a.args + a.kwonlyargs} | ({a.vararg.arg} if a.vararg else set()) | ({a.kwarg.arg} if a.kwarg else set())


# ------------------------------------------------------------------------------------------------ N4 idioms
class _Idioms(ast.NodeTransformer):
    def __init__(self):
        self.n = 0

    def visit_Dict(self, node):
        self.generic_visit(node)
        if node.keys and all(k is None for k in node.keys) and len(node.values) >= 2:
            self.n += 1
            out = node.values[0]
            for v in node.values[1:]:
                out = ast.copy_location(ast.BinOp(left=out, op=ast.BitOr(), right=v), node)
            return out
        return node

    def visit_List(self, node):
        self.generic_visit(node)
        # [*a, *b] -> a + b only for plain names / attribute paths (an operand like `(x if c else ())` may be a tuple: `+` would
        # not be the same operation)
        if isinstance(node.ctx, ast.Load) and len(node.elts) >= 2 and all(isinstance(e, ast.Starred) and isinstance(e.value, (ast.Name, ast.Attribute)) for e in node.elts):
            self.n += 1
            out = node.elts[0].value
            for e in node.elts[1:]:
                out = ast.copy_location(ast.BinOp(left=out, op=ast.Add(), right=e.value), node)
            return out
        return node

    def visit_UnaryOp(self, node):
        self.generic_visit(node)
        if isinstance(node.op, ast.Not):
            o = node.operand
            if isinstance(o, ast.Compare) and len(o.ops) == 1 and (type(o.ops[0]) in _NEG or type(o.ops[0]) in _POS):
                self.n += 1
                return negate(o)
            if isinstance(o, ast.UnaryOp) and isinstance(o.op, ast.Not):
                # `not not x` is bool(x); only safe in a boolean context - leave
                return node
        return node


# ------------------------------------------------------------------------------------------------ N3 / N6 / N8
def _n3(tree):
    n = 0
    for x in ast.walk(tree):
        if isinstance(x, ast.If) and x.orelse:
            p = positive(x.test)
            if p is not None:
                x.test, x.body, x.orelse = p, x.orelse, x.body
                n += 1
        elif isinstance(x, ast.IfExp):
            p = positive(x.test)
            if p is not None:
                x.test, x.body, x.orelse = p, x.orelse, x.body
                n += 1
    return n


def _has_isinstance(t):
    return any(isinstance(c, ast.Call) and isinstance(c.func, ast.Name) and c.func.id == "isinstance" for c in ast.walk(t))


def _n6(fn):
    """if/else assigning one target -> conditional expression"""
    n = 0
    for owner, field, blk in list(_blocks(fn)):
        for i, st in enumerate(blk):
            if (
                isinstance(st, ast.If)
                and len(st.body) == 1
                and len(st.orelse) == 1
                and isinstance(st.body[0], ast.Assign)
                and isinstance(st.orelse[0], ast.Assign)
                and len(st.body[0].targets) == 1
                and len(st.orelse[0].targets) == 1
                and isinstance(st.body[0].targets[0], (ast.Name, ast.Attribute))
                and _u(st.body[0].targets[0]) == _u(st.orelse[0].targets[0])
                and not _has_isinstance(st.test)
            ):
                new = ast.Assign(
                    targets=st.body[0].targets,
                    value=ast.IfExp(test=st.test, body=st.body[0].value, orelse=st.orelse[0].value),
                    lineno=st.lineno, col_offset=st.col_offset,
                )  # fmt: skip
                ast.copy_location(new.value, st)
                blk[i] = new
                n += 1
    return n


def _n8(fn):
    n = 0
    for loop in [x for x in ast.walk(fn) if isinstance(x, ast.For)]:
        changed = True
        while changed:
            changed = False
            b = loop.body
            if (
                len(b) >= 2
                and isinstance(b[0], ast.If)
                and not b[0].orelse
                and len(b[0].body) == 1
                and isinstance(b[0].body[0], ast.Continue)
                and not any(isinstance(x, ast.Continue) for s in b[1:] for x in ast.walk(s))
            ):
                new = ast.If(test=negate(b[0].test), body=b[1:], orelse=[], lineno=b[0].lineno, col_offset=b[0].col_offset)
                loop.body = [new]
                n += 1
                changed = True
    return n


# ------------------------------------------------------------------------------------------------ N1 / N2
def _header_exprs(st):
    if isinstance(st, (ast.Return, ast.Expr)):
        return [st.value] if st.value is not None else []
    if isinstance(st, ast.Assign):
        return [st.value] + list(st.targets)
    if isinstance(st, (ast.AugAssign, ast.AnnAssign)):
        return [x for x in (st.value, st.target) if x is not None]
    if isinstance(st, ast.If):
        return [st.test]
    if isinstance(st, ast.For):
        return [st.iter]
    if isinstance(st, ast.With):
        return [it.context_expr for it in st.items]
    if isinstance(st, ast.Raise):
        return [x for x in (st.exc, st.cause) if x is not None]
    if isinstance(st, ast.Assert):
        return [x for x in (st.test, st.msg) if x is not None]
    return []


def _once_positions(expr, name):
    out = []

    def rec(n, once):
        if isinstance(n, ast.Name) and n.id == name and isinstance(n.ctx, ast.Load):
            out.append((n, once))
            return
        if isinstance(n, ast.Lambda):
            rec(n.body, False)
            return
        if isinstance(n, (ast.ListComp, ast.SetComp, ast.GeneratorExp, ast.DictComp)):
            for i, g in enumerate(n.generators):
                rec(g.iter, once and i == 0)
                for c in g.ifs:
                    rec(c, False)
            for f in ("elt", "key", "value"):
                if hasattr(n, f):
                    rec(getattr(n, f), False)
            return
        if isinstance(n, ast.IfExp):
            rec(n.test, once)
            rec(n.body, False)
            rec(n.orelse, False)
            return
        if isinstance(n, ast.BoolOp):
            for i, v in enumerate(n.values):
                rec(v, once and i == 0)
            return
        for c in ast.iter_child_nodes(n):
            rec(c, once)

    rec(expr, True)
    return out


def _replace_node(root, old, new):
    for par in ast.walk(root):
        for f, v in ast.iter_fields(par):
            if v is old:
                setattr(par, f, new)
                return True
            if isinstance(v, list) and any(x is old for x in v):
                setattr(par, f, [new if x is old else x for x in v])
                return True
    return False


def _n12(fn):
    removed = 0
    params = _params(fn)
    for _ in range(8):
        stores: dict[str, int] = {}
        loads: dict[str, int] = {}
        for n in ast.walk(fn):
            if isinstance(n, ast.Name):
                d = stores if isinstance(n.ctx, (ast.Store, ast.Del)) else loads
                d[n.id] = d.get(n.id, 0) + 1
            elif isinstance(n, ast.ExceptHandler) and n.name:
                stores[n.name] = stores.get(n.name, 0) + 2
            elif isinstance(n, (ast.Global, ast.Nonlocal)):
                for nm in n.names:
                    stores[nm] = stores.get(nm, 0) + 2
        changed = False
        for _owner, _field, blk in _blocks(fn):
            i = 0
            while i + 1 < len(blk):
                st, nxt = blk[i], blk[i + 1]
                simple = isinstance(st, ast.Assign) and len(st.targets) == 1 and isinstance(st.targets[0], ast.Name)
                if isinstance(st, ast.AnnAssign) and isinstance(st.target, ast.Name) and st.value is not None:
                    simple = True
                    st = ast.copy_location(ast.Assign(targets=[st.target], value=st.value), st)
                if simple and not isinstance(st.value, (ast.Yield, ast.YieldFrom, ast.Await)):
                    nm = st.targets[0].id
                    if isinstance(nxt, ast.Return) and isinstance(nxt.value, ast.Name) and nxt.value.id == nm:
                        nxt.value = st.value
                        del blk[i]
                        removed += 1
                        changed = True
                        continue
                    if (
                        nm not in params
                        and stores.get(nm) == 1
                        and loads.get(nm) == 1
                        and not isinstance(st.value, (ast.Lambda, ast.NamedExpr))
                    ):
                        pos = [p for h in _header_exprs(nxt) for p in _once_positions(h, nm)]
                        pure = not any(isinstance(x, (ast.Call, ast.NamedExpr, ast.Yield, ast.YieldFrom, ast.Await)) for x in ast.walk(st.value))
                        if len(pos) == 1 and (pos[0][1] or pure):
                            _replace_node(nxt, pos[0][0], st.value)
                            del blk[i]
                            removed += 1
                            changed = True
                            stores[nm] = 0
                            continue
                i += 1
        if not changed:
            break
    return removed


# ------------------------------------------------------------------------------------------------ N5 accumulators
def _fresh_init(v):
    """('list'|'dict'|'set', initial expression or None) for an accumulator initialiser"""
    if isinstance(v, ast.List) and not v.elts:
        return "list", None
    if isinstance(v, ast.Dict) and not v.keys:
        return "dict", None
    if isinstance(v, ast.Call) and isinstance(v.func, ast.Name) and v.func.id in ("list", "dict", "set") and not v.keywords:
        if not v.args:
            return v.func.id, None
        if len(v.args) == 1:
            return v.func.id, v.args[0]
    if isinstance(v, ast.Call) and isinstance(v.func, ast.Attribute) and v.func.attr == "copy" and not v.args:
        return "copy", v.func.value
    return None


def _loop_to_comp(loop, acc, kind):
    """comprehension equivalent to `for ..: [if C:] acc.append(E)` or None.  returns (kind, comp).
    `acc` is the text of the accumulator (a name or an attribute path such as `res.name_to_uuid`)"""
    gens = []
    cur = loop
    while True:
        if cur.orelse or any(isinstance(x, (ast.Break, ast.Continue)) for x in ast.walk(cur)):
            return None
        g = ast.comprehension(target=cur.target, iter=cur.iter, ifs=[], is_async=0)
        gens.append(g)
        body = cur.body
        while len(body) == 1 and isinstance(body[0], ast.If) and not body[0].orelse:
            g.ifs.append(body[0].test)
            body = body[0].body
        if len(body) == 1 and isinstance(body[0], ast.For):
            cur = body[0]
            continue
        break
    if len(body) != 1:
        return None
    s = body[0]

    def is_acc(n):
        return isinstance(n, (ast.Name, ast.Attribute)) and _u(n) == acc

    def mentions(n):
        return any(is_acc(x) for x in ast.walk(n))

    for g in gens:
        if mentions(g.iter) or any(mentions(c) for c in g.ifs):
            return None
    if isinstance(s, ast.Expr) and isinstance(s.value, ast.Call) and isinstance(s.value.func, ast.Attribute) and is_acc(s.value.func.value):
        m = s.value.func.attr
        if len(s.value.args) != 1 or s.value.keywords or mentions(s.value.args[0]):
            return None
        e = s.value.args[0]
        if m == "append" and kind in ("list", "copy"):
            return "list", ast.ListComp(elt=e, generators=gens)
        if m == "add" and kind in ("set", "copy"):
            return "set", ast.SetComp(elt=e, generators=gens)
        return None
    if isinstance(s, ast.Assign) and len(s.targets) == 1 and isinstance(s.targets[0], ast.Subscript) and is_acc(s.targets[0].value):
        if mentions(s.targets[0].slice) or mentions(s.value) or kind not in ("dict", "copy"):
            return None
        return "dict", ast.DictComp(key=s.targets[0].slice, value=s.value, generators=gens)
    return None


def _n5(fn):
    n = 0
    for _owner, _field, blk in list(_blocks(fn)):
        i = 0
        while i < len(blk):
            st = blk[i]
            tnode = val = None
            if isinstance(st, ast.Assign) and len(st.targets) == 1 and isinstance(st.targets[0], (ast.Name, ast.Attribute)):
                tnode, val = st.targets[0], st.value
            elif isinstance(st, ast.AnnAssign) and isinstance(st.target, (ast.Name, ast.Attribute)) and st.value is not None:
                tnode, val = st.target, st.value
            fi = _fresh_init(val) if val is not None else None
            if fi is None:
                i += 1
                continue
            tgt = _u(tnode)
            kind, init = fi
            j = i + 1
            comps = []
            consumed = []
            ckind = None if kind == "copy" else kind

            def uses_acc(s_):
                return any(isinstance(x, (ast.Name, ast.Attribute)) and _u(x) == tgt for x in ast.walk(s_))

            while j < len(blk):
                s_ = blk[j]
                if not uses_acc(s_):
                    if isinstance(s_, (ast.Assign, ast.AnnAssign)) and not any(isinstance(x, ast.Call) for x in ast.walk(s_)):
                        j += 1
                        continue
                    break
                if isinstance(s_, ast.For):
                    r = _loop_to_comp(s_, tgt, ckind or "copy")
                    if r is None:
                        break
                    k2, comp = r
                    if ckind is None:
                        ckind = k2
                    elif ckind != k2:
                        break
                    comps.append(comp)
                    consumed.append(j)
                    j += 1
                    continue
                break
            if not comps or (kind == "copy" and ckind is None):
                i += 1
                continue
            op = ast.Add() if ckind == "list" else ast.BitOr()
            parts = ([init] if init is not None else []) + comps
            out = parts[0]
            for p_ in parts[1:]:
                out = ast.BinOp(left=out, op=copy.copy(op), right=p_)
            tcopy = copy.deepcopy(tnode)
            for x in ast.walk(tcopy):
                if hasattr(x, "ctx") and x is tcopy:
                    x.ctx = ast.Store()
            new = ast.Assign(targets=[tcopy], value=out, lineno=st.lineno, col_offset=st.col_offset)
            ast.fix_missing_locations(new)
            last = max(consumed) + 1
            keep = [blk[k] for k in range(i + 1, last) if k not in consumed]
            blk[i:last] = keep + [new]
            n += 1
            i += len(keep) + 1
    return n


def _pure_chain(e):
    """a side-effect free, cheap expression: names, attribute / constant-or-name subscript chains, constants"""
    if isinstance(e, (ast.Name, ast.Constant)):
        return True
    if isinstance(e, ast.Attribute):
        return _pure_chain(e.value)
    if isinstance(e, ast.Subscript):
        return _pure_chain(e.value) and _pure_chain(e.slice)
    return False


def _n2b(fn):
    """a temporary that names a pure access path (`name = self.uuid_to_name[uid]`) and is assigned exactly once is
    replaced by the path at all its uses inside the block that defines it (the path's own names are not re-assigned)"""
    n = 0
    params = _params(fn)
    stores: dict[str, int] = {}
    for x in ast.walk(fn):
        if isinstance(x, ast.Name) and isinstance(x.ctx, (ast.Store, ast.Del)):
            stores[x.id] = stores.get(x.id, 0) + 1
    for _owner, _field, blk in list(_blocks(fn)):
        i = 0
        while i < len(blk):
            st = blk[i]
            if (
                isinstance(st, ast.Assign)
                and len(st.targets) == 1
                and isinstance(st.targets[0], ast.Name)
                and st.targets[0].id not in params
                and stores.get(st.targets[0].id) == 1
                and not isinstance(st.value, (ast.Name, ast.Constant))
                and _pure_chain(st.value)
                and not any(
                    isinstance(y, ast.Name) and isinstance(y.ctx, (ast.Store, ast.Del)) and y.id in {x.id for x in ast.walk(st.value) if isinstance(x, ast.Name)}
                    for s_ in blk[i + 1:] for y in ast.walk(s_)
                )
            ):
                nm = st.targets[0].id
                # every use must be inside the rest of this block
                uses_here = sum(1 for s_ in blk[i + 1:] for x in ast.walk(s_) if isinstance(x, ast.Name) and x.id == nm)
                uses_all = sum(1 for x in ast.walk(fn) if isinstance(x, ast.Name) and x.id == nm and isinstance(x.ctx, ast.Load))
                # the object the path starts from must not be mutated through the path's root in the rest of the block
                if uses_here == uses_all and uses_all >= 1:
                    sub = _Subst({nm: st.value})
                    for k in range(i + 1, len(blk)):
                        blk[k] = sub.visit(blk[k])
                    del blk[i]
                    n += 1
                    continue
            i += 1
    return n


# ------------------------------------------------------------------------------------------------ N11 copy-then-update
def _n11(fn):
    """`d = dict(a); d.update(b)` (also `a.copy()`, `{**a}`; several updates) -> `d = a | b`"""
    n = 0
    for _owner, _field, blk in list(_blocks(fn)):
        i = 0
        while i + 1 < len(blk):
            st = blk[i]
            if isinstance(st, ast.Assign) and len(st.targets) == 1 and isinstance(st.targets[0], ast.Name):
                fi = _fresh_init(st.value)
                if fi is not None and fi[1] is not None and fi[0] in ("dict", "copy", "set"):
                    nm = st.targets[0].id
                    out = fi[1]
                    j = i + 1
                    while j < len(blk):
                        s_ = blk[j]
                        if (
                            isinstance(s_, ast.Expr) and isinstance(s_.value, ast.Call) and isinstance(s_.value.func, ast.Attribute)
                            and s_.value.func.attr == "update" and isinstance(s_.value.func.value, ast.Name) and s_.value.func.value.id == nm
                            and len(s_.value.args) == 1 and not s_.value.keywords
                            and not any(isinstance(x, ast.Name) and x.id == nm for x in ast.walk(s_.value.args[0]))
                        ):
                            out = ast.BinOp(left=out, op=ast.BitOr(), right=s_.value.args[0])
                            j += 1
                        else:
                            break
                    if j > i + 1:
                        new = ast.Assign(targets=st.targets, value=out)
                        ast.copy_location(new, st)
                        ast.fix_missing_locations(new)
                        blk[i:j] = [new]
                        n += 1
            i += 1
    return n


# ------------------------------------------------------------------------------------------------ N10 get-then-None-test
def _terminates(body):
    return bool(body) and isinstance(body[-1], (ast.Raise, ast.Return, ast.Continue, ast.Break))


def _n10(fn):
    """`x = D.get(K); if x is None: <raise/return>` -> `if K not in D: <raise/return>; x = D[K]`  (the membership-test
    form of the same lookup; the temporary is then inlined by N2/N2b)"""
    n = 0
    for _owner, _field, blk in list(_blocks(fn)):
        i = 0
        while i + 1 < len(blk):
            st, nxt = blk[i], blk[i + 1]
            if (
                isinstance(st, ast.Assign) and len(st.targets) == 1 and isinstance(st.targets[0], ast.Name)
                and isinstance(st.value, ast.Call) and isinstance(st.value.func, ast.Attribute) and st.value.func.attr == "get"
                and len(st.value.args) == 1 and not st.value.keywords and _pure_chain(st.value.func.value) and _pure_chain(st.value.args[0])
                and isinstance(nxt, ast.If) and not nxt.orelse and _terminates(nxt.body)
                and isinstance(nxt.test, ast.Compare) and len(nxt.test.ops) == 1 and isinstance(nxt.test.ops[0], ast.Is)
                and isinstance(nxt.test.left, ast.Name) and nxt.test.left.id == st.targets[0].id
                and isinstance(nxt.test.comparators[0], ast.Constant) and nxt.test.comparators[0].value is None
                and not any(isinstance(x, ast.Name) and x.id == st.targets[0].id for b in nxt.body for x in ast.walk(b))
            ):
                d, k = st.value.func.value, st.value.args[0]
                test = ast.Compare(left=copy.deepcopy(k), ops=[ast.NotIn()], comparators=[copy.deepcopy(d)])
                new_if = ast.If(test=test, body=nxt.body, orelse=[])
                new_as = ast.Assign(targets=st.targets, value=ast.Subscript(value=copy.deepcopy(d), slice=copy.deepcopy(k), ctx=ast.Load()))
                for o in (new_if, new_as):
                    ast.copy_location(o, st)
                    ast.fix_missing_locations(o)
                blk[i : i + 2] = [new_if, new_as]
                n += 1
            i += 1
    return n


# ------------------------------------------------------------------------------------------------ N9 helper inlining
class _Subst(ast.NodeTransformer):
    def __init__(self, mapping):
        self.mapping = mapping

    def visit_Name(self, node):
        if node.id in self.mapping and isinstance(node.ctx, ast.Load):
            return copy.deepcopy(self.mapping[node.id])
        return node


def _simple_arg(e):
    return isinstance(e, (ast.Name, ast.Attribute, ast.Constant)) or (isinstance(e, ast.Subscript) and _simple_arg(e.value))


def _effective(body):
    return [s for s in body if not (isinstance(s, ast.Expr) and isinstance(s.value, ast.Constant)) and not isinstance(s, ast.Pass)]


def _helper_table(tree, new_names):
    """{(class or None, name): FunctionDef} for inlinable helpers among `new_names` (qualified names absent from the reference)"""
    out = {}

    def visit(node, cls):
        for ch in node.body if hasattr(node, "body") else []:
            if isinstance(ch, ast.ClassDef):
                visit(ch, ch.name)
            elif isinstance(ch, ast.FunctionDef):
                q = f"{cls}.{ch.name}" if cls else ch.name
                if q in new_names:
                    out[(cls, ch.name)] = ch

    visit(tree, None)
    return out


def _bind_args(fn, call, skip):
    """{param: arg expr} or None"""
    a = fn.args
    if a.vararg or a.kwarg or a.posonlyargs:
        return None
    params = [p.arg for p in a.args][skip:]
    kwonly = [p.arg for p in a.kwonlyargs]
    if any(isinstance(x, ast.Starred) for x in call.args) or any(k.arg is None for k in call.keywords):
        return None
    if len(call.args) > len(params):
        return None
    m = dict(zip(params, call.args))
    for k in call.keywords:
        if k.arg in m or k.arg not in params + kwonly:
            return None
        m[k.arg] = k.value
    defaults = dict(zip(params[len(params) - len(a.defaults):], a.defaults)) if a.defaults else {}
    for p, d in zip(a.kwonlyargs, a.kw_defaults):
        if d is not None:
            defaults[p.arg] = d
    for p in params + kwonly:
        if p not in m:
            if p in defaults:
                m[p] = defaults[p]
            else:
                return None
    return m


def _structure_procedure(body):
    """statement list of a function whose returns carry no value -> equivalent list without `return`, or None"""

    def is_bare(r):
        return isinstance(r, ast.Return) and (r.value is None or (isinstance(r.value, ast.Constant) and r.value.value is None))

    def rec(stmts):
        out = []
        for i, st in enumerate(stmts):
            if is_bare(st):
                return out  # everything after a return is dead
            if isinstance(st, ast.Return):
                return None
            if isinstance(st, ast.If):
                b_ends = bool(st.body) and is_bare(st.body[-1])
                o_ends = bool(st.orelse) and is_bare(st.orelse[-1])
                rest = stmts[i + 1:]
                if b_ends and not st.orelse:
                    b, r = rec(st.body), rec(rest)
                    if b is None or r is None:
                        return None
                    out.append(ast.If(test=st.test, body=b or [ast.Pass()], orelse=r, lineno=st.lineno, col_offset=0))
                    return out
                if b_ends or o_ends:
                    b, o = rec(st.body), rec(st.orelse)
                    if b is None or o is None:
                        return None
                    r = rec(rest)
                    if r is None:
                        return None
                    # the branch that does not return continues with the rest
                    if b_ends and o_ends:
                        out.append(ast.If(test=st.test, body=b or [ast.Pass()], orelse=o, lineno=st.lineno, col_offset=0))
                    elif b_ends:
                        out.append(ast.If(test=st.test, body=b or [ast.Pass()], orelse=o + r, lineno=st.lineno, col_offset=0))
                    else:
                        out.append(ast.If(test=st.test, body=(b + r) or [ast.Pass()], orelse=o, lineno=st.lineno, col_offset=0))
                    return out
                if any(isinstance(x, ast.Return) for x in ast.walk(st)):
                    return None
                out.append(st)
            elif any(isinstance(x, ast.Return) for x in ast.walk(st)) and not isinstance(st, (ast.FunctionDef, ast.Lambda)):
                return None
            else:
                out.append(st)
        return out

    r = rec(list(body))
    return r if r else None


def _n9(tree, new_names):
    helpers = _helper_table(tree, new_names)
    if not helpers:
        return 0
    n = 0
    counter = [0]

    def resolve(call, cls):
        f = call.func
        if isinstance(f, ast.Name) and (None, f.id) in helpers:
            return helpers[(None, f.id)], 0
        if isinstance(f, ast.Attribute) and isinstance(f.value, ast.Name):
            recv = f.value.id
            for c in (cls, recv):
                if c and (c, f.attr) in helpers and recv in ("self", "cls", c):
                    h = helpers[(c, f.attr)]
                    static = any(_u(d) == "staticmethod" for d in h.decorator_list)
                    return h, 0 if static else 1
        return None

    def inline_fn(fn, cls, depth=0):
        nonlocal n
        if depth > 3:
            return
        # (a) expression helpers anywhere in an expression
        class Ex(ast.NodeTransformer):
            def visit_Call(self, node):
                self.generic_visit(node)
                r = resolve(node, cls)
                if r is None:
                    return node
                h, skip = r
                if h is fn:
                    return node
                body = _effective(h.body)
                if len(body) == 1 and isinstance(body[0], ast.Return) and body[0].value is not None:
                    m = _bind_args(h, node, skip)
                    if m is None:
                        return node
                    # every parameter used more than once must be bound to a simple expression (no duplicated effects)
                    expr = body[0].value
                    for p, a in m.items():
                        uses = sum(1 for x in ast.walk(expr) if isinstance(x, ast.Name) and x.id == p)
                        if uses > 1 and not _simple_arg(a):
                            return node
                    nonlocal_n[0] += 1
                    return ast.copy_location(_Subst(m).visit(copy.deepcopy(expr)), node)
                return node

        nonlocal_n = [0]
        Ex().visit(fn)
        n += nonlocal_n[0]
        # (b) statement helpers
        for _owner, _field, blk in list(_blocks(fn)):
            i = 0
            while i < len(blk):
                st = blk[i]
                call = None
                mode = None
                if isinstance(st, ast.Expr) and isinstance(st.value, ast.Call):
                    call, mode = st.value, "expr"
                elif isinstance(st, ast.Assign) and len(st.targets) == 1 and isinstance(st.value, ast.Call):
                    call, mode = st.value, "assign"
                elif isinstance(st, ast.Return) and isinstance(st.value, ast.Call):
                    call, mode = st.value, "return"
                r = resolve(call, cls) if call is not None else None
                if r is None:
                    i += 1
                    continue
                h, skip = r
                body = _effective(h.body)
                if h is fn or not body:
                    i += 1
                    continue
                if mode == "expr":
                    # a procedure with early exits (`if c: ...; return` followed by the rest) is first brought into the
                    # structured form `if c: ... else: <rest>`; bare returns in tail position disappear
                    sb = _structure_procedure(copy.deepcopy(body))
                    if sb is not None:
                        body = sb
                inner_returns = [x for s in body[:-1] for x in ast.walk(s) if isinstance(x, ast.Return)]
                last = body[-1]
                nested_ret_in_last = [x for x in ast.walk(last) if isinstance(x, ast.Return) and x is not last]
                has_yield = any(isinstance(x, (ast.Yield, ast.YieldFrom)) for s in body for x in ast.walk(s))
                # `return helper(..)`: every return of the helper returns from the caller with the same value - early returns
                # need no restructuring in tail position
                tail_ok = mode == "return" and not has_yield
                if ((inner_returns or nested_ret_in_last) and not tail_ok) or has_yield:
                    i += 1
                    continue
                m = _bind_args(h, call, skip)
                if m is None:
                    i += 1
                    continue
                counter[0] += 1
                suffix = f"__{h.name.strip('_')}{counter[0]}"
                new_body = copy.deepcopy(body)
                mod = ast.Module(body=new_body, type_ignores=[])
                # parameters: bind to temporaries unless the argument is simple and the parameter is never re-assigned
                stored = {x.id for x in ast.walk(mod) if isinstance(x, ast.Name) and isinstance(x.ctx, ast.Store)}
                # a local of the helper keeps its name unless the caller already uses that name (capture); the names are then
                # those of the function before the helper was extracted
                taken = {x.id for x in ast.walk(fn) if isinstance(x, ast.Name)} | {a.arg for a in ast.walk(fn) if isinstance(a, ast.arg)}
                taken |= {x.id for a in m.values() for x in ast.walk(a) if isinstance(x, ast.Name)}

                def fresh_name(nm):
                    return nm + suffix if nm in taken else nm

                pre = []
                sub = {}
                for p, a in m.items():
                    if _simple_arg(a) and p not in stored:
                        sub[p] = a
                    else:
                        tmp = fresh_name(p)
                        pre.append(ast.Assign(targets=[ast.Name(id=tmp, ctx=ast.Store())], value=copy.deepcopy(a), lineno=st.lineno, col_offset=0))
                        sub[p] = ast.Name(id=tmp, ctx=ast.Load())
                # rename the helper's own locals
                ren = {nm: fresh_name(nm) for nm in stored if nm not in m}
                for x in ast.walk(mod):
                    if isinstance(x, ast.Name) and x.id in ren:
                        x.id = ren[x.id]
                    elif isinstance(x, ast.Name) and x.id in m and isinstance(x.ctx, ast.Store):
                        x.id = fresh_name(x.id)
                mod = _Subst({**sub, **{p: ast.Name(id=fresh_name(p), ctx=ast.Load()) for p in m if p in stored}}).visit(mod)
                out = pre + mod.body
                lastn = out[-1]
                if mode == "return" and (inner_returns or nested_ret_in_last):
                    if not isinstance(lastn, (ast.Return, ast.Raise)):
                        out.append(ast.Return(value=ast.Constant(value=None)))
                elif isinstance(lastn, ast.Return):
                    rv = lastn.value if lastn.value is not None else ast.Constant(value=None)
                    if mode == "expr":
                        out[-1] = ast.Expr(value=rv) if not isinstance(rv, ast.Constant) else ast.Pass()
                    elif mode == "assign":
                        out[-1] = ast.Assign(targets=st.targets, value=rv, lineno=st.lineno, col_offset=0)
                    else:
                        out[-1] = ast.Return(value=rv)
                else:
                    if mode == "assign":
                        out.append(ast.Assign(targets=st.targets, value=ast.Constant(value=None), lineno=st.lineno, col_offset=0))
                    elif mode == "return":
                        out.append(ast.Return(value=ast.Constant(value=None)))
                for o in out:
                    ast.copy_location(o, st)
                    ast.fix_missing_locations(o)
                blk[i : i + 1] = out
                n += 1
                # do not advance: the inlined body may contain further helper calls
                if depth > 3:
                    i += len(out)

    def visit(node, cls):
        for ch in node.body if hasattr(node, "body") else []:
            if isinstance(ch, ast.ClassDef):
                visit(ch, ch.name)
            elif isinstance(ch, (ast.FunctionDef, ast.AsyncFunctionDef)):
                if (cls, ch.name) not in helpers:
                    inline_fn(ch, cls)
                visit(ch, cls)

    visit(tree, None)
    return n


# ------------------------------------------------------------------------------------------------ driver
# ------------------------------------------------------------------------------------------------ N13 match statements
def _pattern_test(pat, subj):
    """(test expression, [binding statements]) for the patterns that are spelled-out isinstance / equality tests, else None"""
    load = lambda: copy.deepcopy(subj)  # noqa: E731
    if isinstance(pat, ast.MatchClass) and not pat.patterns and not pat.kwd_patterns:
        return ast.Call(func=ast.Name(id="isinstance", ctx=ast.Load()), args=[load(), copy.deepcopy(pat.cls)], keywords=[]), []
    if isinstance(pat, ast.MatchClass) and not pat.patterns and pat.kwd_patterns:
        # Cls(attr=<pattern>, ..): the class test, then the sub-patterns on the attributes (read as `subject.attr`)
        tests = [ast.Call(func=ast.Name(id="isinstance", ctx=ast.Load()), args=[load(), copy.deepcopy(pat.cls)], keywords=[])]
        binds = []
        for attr, sub in zip(pat.kwd_attrs, pat.kwd_patterns):
            inner = _pattern_test(sub, ast.Attribute(value=load(), attr=attr, ctx=ast.Load()))
            if inner is None:
                return None
            if not (isinstance(inner[0], ast.Constant) and inner[0].value is True):
                tests.append(inner[0])
            binds += inner[1]
        return (tests[0] if len(tests) == 1 else ast.BoolOp(op=ast.And(), values=tests)), binds
    if isinstance(pat, ast.MatchOr):
        parts = [_pattern_test(p, subj) for p in pat.patterns]
        if any(p is None for p in parts):
            return None
        if any(p[1] for p in parts):
            # alternatives that bind names: every alternative binds the same names to the same paths of the subject
            dumps = {tuple(ast.dump(b) for b in p[1]) for p in parts}
            if len(dumps) != 1:
                return None
            return ast.BoolOp(op=ast.Or(), values=[p[0] for p in parts]), parts[0][1]
        classes = [p[0].args[1] for p in parts if isinstance(p[0], ast.Call) and getattr(p[0].func, "id", "") == "isinstance"]
        if len(classes) == len(parts):
            union = classes[0]
            for c in classes[1:]:
                union = ast.BinOp(left=union, op=ast.BitOr(), right=c)
            return ast.Call(func=ast.Name(id="isinstance", ctx=ast.Load()), args=[load(), union], keywords=[]), []
        return ast.BoolOp(op=ast.Or(), values=[p[0] for p in parts]), []
    if isinstance(pat, ast.MatchValue):
        return ast.Compare(left=load(), ops=[ast.Eq()], comparators=[copy.deepcopy(pat.value)]), []
    if isinstance(pat, ast.MatchSingleton):
        return ast.Compare(left=load(), ops=[ast.Is()], comparators=[ast.Constant(value=pat.value)]), []
    if isinstance(pat, ast.MatchAs):
        bind = [ast.Assign(targets=[ast.Name(id=pat.name, ctx=ast.Store())], value=load(), lineno=0, col_offset=0)] if pat.name else []
        if pat.pattern is None:
            return ast.Constant(value=True), bind
        inner = _pattern_test(pat.pattern, subj)
        return None if inner is None else (inner[0], inner[1] + bind)
    return None


def _n13(tree):
    """`match subject: case Cls(): .. case A() | B(): .. case "x": .. case _: ..` (class patterns without sub-patterns, values,
    wildcard, `as` bindings, guards) -> the equivalent if / elif chain, so that every analysis written for isinstance
    dispatch sees the usual form"""
    n = 0
    for owner in list(ast.walk(tree)):
        for field in ("body", "orelse", "finalbody"):
            blk = getattr(owner, field, None)
            if not isinstance(blk, list):
                continue
            for i, st in enumerate(list(blk)):
                if not isinstance(st, ast.Match) or not _simple_arg(st.subject):
                    continue
                arms = []
                ok = True
                for case in st.cases:
                    pt = _pattern_test(case.pattern, st.subject)
                    if pt is None:
                        ok = False
                        break
                    test, binds = pt
                    if case.guard is not None:
                        guard = case.guard
                        if binds:  # the guard may read the binding: it denotes the (simple) subject there
                            guard = _Subst({b.targets[0].id: b.value for b in binds}).visit(copy.deepcopy(guard))
                        case = ast.match_case(pattern=case.pattern, guard=guard, body=case.body)
                        test = case.guard if isinstance(test, ast.Constant) and test.value is True else ast.BoolOp(op=ast.And(), values=[test, case.guard])
                    arms.append((test, binds + case.body))
                if not ok or not arms:
                    continue
                chain = None
                for test, body in reversed(arms):
                    if isinstance(test, ast.Constant) and test.value is True:
                        chain = body
                        continue
                    chain = [ast.If(test=test, body=body, orelse=chain or [], lineno=st.lineno, col_offset=st.col_offset)]
                blk[i:i + 1] = chain
                n += 1
    if n:
        ast.fix_missing_locations(tree)
    return n


def normalise(tree, new_helpers=frozenset()):
    counts = {}
    counts["N13"] = _n13(tree)
    if new_helpers:
        counts["N9"] = _n9(tree, new_helpers)
    idi = _Idioms()
    idi.visit(tree)
    counts["N4"] = idi.n
    fns = [n for n in ast.walk(tree) if isinstance(n, (ast.FunctionDef, ast.AsyncFunctionDef))]
    tot = {"N8": 0, "N5": 0, "N6": 0, "N12": 0}
    for fn in fns:
        for _ in range(4):
            a = _n8(fn) + _n10(fn) + _n11(fn)
            b = _n12(fn) + _n2b(fn)
            c = _n5(fn)
            d = _n6(fn)
            tot["N8"] += a
            tot["N12"] += b
            tot["N5"] += c
            tot["N6"] += d
            if not (a or b or c or d):
                break
    counts.update(tot)
    idi2 = _Idioms()
    idi2.visit(tree)  # inlining exposes `not (a in b)` etc.
    counts["N4"] += idi2.n
    counts["N3"] = _n3(tree)
    ast.fix_missing_locations(tree)
    return counts


# ------------------------------------------------------------------------------------------------ token signatures
_STRUCTURAL = {
    "append", "extend", "add", "update", "get", "items", "keys", "values", "copy", "setdefault", "insert", "format",
    "len", "list", "dict", "set", "tuple", "frozenset", "zip", "enumerate", "range", "sorted", "any", "all", "isinstance",
    "iter", "next", "reversed", "bool", "str", "int", "type", "print", "map", "filter", "chain", "union", "reduce",
    "and_", "or_", "clear", "pop", "remove", "discard", "issubset", "issuperset", "isdisjoint", "difference", "intersection",
    "startswith", "endswith", "join", "lower", "upper", "strip", "split", "Optional", "Any", "cast",
}  # fmt: skip
_CMP_CLASS = {
    ast.Eq: "eq", ast.NotEq: "eq", ast.In: "in", ast.NotIn: "in", ast.Is: "is", ast.IsNot: "is",
    ast.Lt: "lt", ast.LtE: "le", ast.Gt: "gt", ast.GtE: "ge",
}  # fmt: skip


def signature(node, ignore_names=frozenset()) -> frozenset:
    """set of behaviour-carrying tokens of a function (or module): what is called, read, written, raised, compared and
    which constants occur - but neither the names of local variables nor the statement structure.  Two versions of a
    function with the same signature differ only by restructuring (renaming, reordering, loops vs comprehensions,
    temporaries, conditional expressions vs statements, helper extraction after inlining)."""
    toks = set()
    local = set()
    for n in ast.walk(node):
        if isinstance(n, ast.Name) and isinstance(n.ctx, (ast.Store, ast.Del)):
            local.add(n.id)
        elif isinstance(n, ast.ExceptHandler) and n.name:
            local.add(n.name)
        elif isinstance(n, ast.arg):
            local.add(n.arg)
    msg_nodes = set()
    for n in ast.walk(node):
        if isinstance(n, ast.Raise) and n.exc is not None:
            for x in ast.walk(n.exc):
                if isinstance(x, (ast.Constant, ast.JoinedStr)):
                    msg_nodes.add(id(x))
                    for y in ast.walk(x):
                        msg_nodes.add(id(y))
        elif isinstance(n, ast.Assert) and n.msg is not None:
            for x in ast.walk(n.msg):
                msg_nodes.add(id(x))
        elif isinstance(n, ast.Call) and isinstance(n.func, (ast.Name, ast.Attribute)):
            fname = n.func.id if isinstance(n.func, ast.Name) else n.func.attr
            if fname in ("warn", "warn_non_standard", "debug", "info", "warning", "error") or fname.endswith("Error") or fname.endswith("Warning"):
                for a in list(n.args) + [k.value for k in n.keywords]:
                    for x in ast.walk(a):
                        if isinstance(x, (ast.Constant, ast.JoinedStr)):
                            msg_nodes.add(id(x))
                            for y in ast.walk(x):
                                msg_nodes.add(id(y))
        elif isinstance(n, ast.Expr) and isinstance(n.value, ast.Constant) and isinstance(n.value.value, str):
            msg_nodes.add(id(n.value))
        elif isinstance(n, ast.JoinedStr):
            for y in ast.walk(n):
                msg_nodes.add(id(y))
    ann_nodes = set()
    for n in ast.walk(node):
        for f in ("annotation", "returns"):
            a = getattr(n, f, None)
            if isinstance(a, ast.AST):
                for y in ast.walk(a):
                    ann_nodes.add(id(y))
    for n in ast.walk(node):
        if id(n) in msg_nodes or id(n) in ann_nodes:
            continue
        if isinstance(n, ast.Attribute):
            if n.attr in _STRUCTURAL or n.attr in ignore_names:
                continue
            toks.add(("store:" if isinstance(n.ctx, ast.Store) else "attr:") + n.attr)
        elif isinstance(n, ast.Name) and isinstance(n.ctx, ast.Load):
            if n.id in local or n.id in _STRUCTURAL or n.id in ignore_names or n.id in ("self", "cls", "None", "True", "False"):
                continue
            toks.add("name:" + n.id)
        elif isinstance(n, ast.Constant):
            if isinstance(n.value, str):
                toks.add("str:" + n.value[:40])
            elif n.value is None or isinstance(n.value, bool):
                continue
            elif isinstance(n.value, (int, float)):
                toks.add(f"num:{n.value}")
        elif isinstance(n, ast.Compare):
            for op in n.ops:
                toks.add("cmp:" + _CMP_CLASS.get(type(op), type(op).__name__))
        elif isinstance(n, ast.BinOp):
            if isinstance(n.op, (ast.BitOr, ast.Add)):
                continue  # merging / concatenation idioms
            toks.add("op:" + type(n.op).__name__)
        elif isinstance(n, ast.AugAssign):
            toks.add("aug:" + type(n.op).__name__)
        elif isinstance(n, ast.UnaryOp) and isinstance(n.op, ast.USub):
            toks.add("op:neg")
        elif isinstance(n, ast.Raise):
            e = n.exc
            if isinstance(e, ast.Call):
                e = e.func
            if e is not None:
                toks.add("raise:" + _u(e).split(".")[-1])
            else:
                toks.add("raise:")
        elif isinstance(n, ast.keyword) and n.arg is not None:
            if isinstance(n.value, ast.Constant) and not isinstance(n.value.value, str):
                toks.add(f"kw:{n.arg}={n.value.value}")
            else:
                toks.add(f"kw:{n.arg}")
        elif isinstance(n, (ast.Break,)):
            toks.add("break")
        elif isinstance(n, ast.Assert):
            toks.add("assert")
        elif isinstance(n, (ast.Yield, ast.YieldFrom)):
            toks.add("yield")
        elif isinstance(n, ast.Lambda):
            toks.add("lambda")
        elif isinstance(n, ast.Subscript) and isinstance(n.ctx, ast.Store) and isinstance(n.value, ast.Attribute):
            toks.add("setitem:" + n.value.attr)
    return frozenset(toks)
