"""Const-unwrapping discipline.

``E.dtype()`` of an arbitrary expression may be ``Const(T)`` (python literals and functions
of literals).  ``Const`` delegates ``is_int`` / ``is_float`` / ``is_subtype`` / ``to_sql`` /
``to_polars`` to its base, but it is *not equal* to ``T()``, not an instance of ``T`` and has
none of ``T``'s fields.  So every test of a dtype value against a concrete type
(``==``, ``!=``, ``in``, ``isinstance``, ``type(..) is``, ``match``) and every read of a type
field (``max_length``, ``precision``, ...) must be made on ``types.without_const(..)`` of
it - otherwise the branch taken for a column is silently not taken for a constant of the
same type (C13: "a constant argument is accepted wherever a column argument is";
C17: the cast table is the same for constants).

Dataflow: per function, local names are classified by a flow-insensitive join over their
assignments: CLEAN (``without_const(..)``, ``.base`` of a const), MAYBE (``X.dtype()`` where
X is not narrowed to a class whose dtype is never const, or a name assigned from MAYBE)
or untracked.  Obligations are the test sites whose subject is MAYBE or CLEAN; they hold
iff CLEAN.  Never-const classes are a reviewed table (reason per line) validated against
the source.
"""

from __future__ import annotations

import ast

from .flow import dominating_tests, preceding_guards
from .source import dotted, enclosing_function, norm, parent

CLEAN, MAYBE = "clean", "maybe-const"

# classes whose dtype() never returns a Const, with the source fact that is re-validated on every run
NEVER_CONST: dict = {
    # (none today: CaseExpr.dtype re-wraps its result with with_const when every branch is constant, and the
    #  validation below refuses a candidate whose dtype() mentions with_const / Const)
}
TYPE_FIELDS = {"max_length", "precision", "scale", "inner", "categories"}
DELEGATED = {"is_int", "is_float", "is_subtype", "to_polars", "to_sql", "base"}


def _narrowed_class(recv, node, func, sym, mod):
    """class names `recv` is known to be an instance of at `node` (dominating isinstance tests)"""
    out = set()
    text = norm(recv)
    tests = list(dominating_tests(node, func)) + (list(preceding_guards(node, func)) if func is not None else [])
    for t, pol in tests:
        if pol and isinstance(t, ast.Call) and norm(t.func) == "isinstance" and len(t.args) == 2 and norm(t.args[0]) == text:
            for n in ast.walk(t.args[1]):
                if isinstance(n, ast.Name):
                    out.add(n.id)
                elif isinstance(n, ast.Attribute):
                    out.add(n.attr)
    return out


class FuncFacts:
    def __init__(self, func, sym, mod):
        self.func, self.sym, self.mod = func, sym, mod
        self.assigns: dict[str, list] = {}
        for n in ast.walk(func):
            if isinstance(n, ast.Assign) and len(n.targets) == 1 and isinstance(n.targets[0], ast.Name):
                self.assigns.setdefault(n.targets[0].id, []).append(n.value)
            elif isinstance(n, ast.AnnAssign) and isinstance(n.target, ast.Name) and n.value is not None:
                self.assigns.setdefault(n.target.id, []).append(n.value)
            elif isinstance(n, ast.NamedExpr) and isinstance(n.target, ast.Name):
                self.assigns.setdefault(n.target.id, []).append(n.value)
        self._memo = {}

    def state(self, e, depth=0):
        """CLEAN / MAYBE / None (untracked)"""
        if isinstance(e, ast.Call):
            fn = dotted(e.func) or ""
            if fn.split(".")[-1] == "without_const" and e.args:
                return CLEAN
            if isinstance(e.func, ast.Attribute) and e.func.attr == "dtype" and not e.args and not e.keywords:
                recv = e.func.value
                if isinstance(recv, ast.Name) and recv.id in ("pl", "np"):
                    return None
                narrowed = _narrowed_class(recv, e, self.func, self.sym, self.mod)
                if narrowed & set(NEVER_CONST):
                    return CLEAN
                return MAYBE
            return None
        if isinstance(e, ast.Attribute) and e.attr == "base":
            return CLEAN
        if isinstance(e, ast.Name) and depth < 5:
            if e.id in self._memo:
                return self._memo[e.id]
            self._memo[e.id] = None
            vals = self.assigns.get(e.id)
            res = None
            if vals:
                sts = [self.state(v, depth + 1) for v in vals]
                if all(s == CLEAN for s in sts):
                    res = CLEAN
                elif any(s == MAYBE for s in sts):
                    res = MAYBE
            self._memo[e.id] = res
            return res
        return None


def _is_type_operand(e) -> bool:
    """`T()`, `types.T()`, a tuple / set of them, or a name of a type table (upper-case)"""
    if isinstance(e, ast.Call):
        d = dotted(e.func) or ""
        last = d.split(".")[-1]
        return bool(last) and last[0].isupper()
    if isinstance(e, (ast.Tuple, ast.Set, ast.List)):
        return bool(e.elts) and all(_is_type_operand(x) for x in e.elts)
    if isinstance(e, (ast.Name, ast.Attribute)):
        d = dotted(e) or ""
        last = d.split(".")[-1]
        return last.isupper() and len(last) > 3  # FLOAT_SUBTYPES, INT_SUBTYPES ...
    return False


def _mentions_const_or_dtype(e) -> bool:
    return any((isinstance(n, ast.Name) and n.id in ("Const", "Dtype")) or (isinstance(n, ast.Attribute) and n.attr in ("Const", "Dtype")) for n in ast.walk(e))


def sites(func, sym, mod):
    """[(node, subject expr, kind, state)]"""
    ff = FuncFacts(func, sym, mod)
    out = []
    nested = set()
    for n in ast.walk(func):
        if n is not func and isinstance(n, (ast.FunctionDef, ast.AsyncFunctionDef)):
            for m in ast.walk(n):
                nested.add(id(m))
    for n in ast.walk(func):
        if id(n) in nested:
            continue
        if isinstance(n, ast.Compare) and len(n.ops) == 1 and isinstance(n.ops[0], (ast.Eq, ast.NotEq, ast.In, ast.NotIn)):
            a, b = n.left, n.comparators[0]
            for subj, other in ((a, b), (b, a)):
                if _is_type_operand(other) and not _is_type_operand(subj):
                    st = ff.state(subj)
                    if st is not None:
                        out.append((n, subj, "comparison with a concrete type", st))
        elif isinstance(n, ast.Call) and norm(n.func) == "isinstance" and len(n.args) == 2 and not _mentions_const_or_dtype(n.args[1]):
            st = ff.state(n.args[0])
            if st is not None:
                out.append((n, n.args[0], "isinstance test", st))
        elif isinstance(n, ast.Call) and norm(n.func) == "type" and len(n.args) == 1:
            p = parent(n)
            if isinstance(p, ast.Compare):
                st = ff.state(n.args[0])
                if st is not None:
                    out.append((n, n.args[0], "type(..) identity test", st))
        elif isinstance(n, ast.Attribute) and n.attr in TYPE_FIELDS and isinstance(n.ctx, ast.Load):
            st = ff.state(n.value)
            if st is not None:
                out.append((n, n.value, f"read of type field .{n.attr}", st))
        elif isinstance(n, ast.Match):
            st = ff.state(n.subject)
            if st is not None:
                out.append((n, n.subject, "match on the type", st))
    return out


def validate_never_const(chk, rule, sym):
    for cname, (needle, why) in NEVER_CONST.items():
        ci = sym.cls(cname)
        fm = ci.find_method("dtype")
        ok = False
        if fm is not None:
            f = fm[1]
            unwrap = any(isinstance(c, ast.Call) and (dotted(c.func) or "").endswith("without_const") for c in ast.walk(f))
            assigns = [
                n for n in ast.walk(f)
                if isinstance(n, ast.Assign) and any(norm(t) == "self._dtype" for t in n.targets)
            ]
            rewrap = any(isinstance(c, ast.Call) and (dotted(c.func) or "").split(".")[-1] in ("with_const", "Const") for c in ast.walk(f))
            ok = unwrap and not rewrap and bool(assigns) and all(needle in norm(a.value) for a in assigns)
        chk.ob(rule, ci.module, fm[1] if fm else ci.node, f"{cname}.dtype() is never const", ok,
               f"the reviewed fact `{why}` no longer holds: tests on `<{cname}>.dtype()` can see a Const")  # fmt: skip


def decides_rejection(node, func) -> bool:
    """the test controls a `raise` (it is part of the condition of an `if` whose body or else-branch raises, or of an assert)"""
    p, child = parent(node), node
    while p is not None and p is not func:
        if isinstance(p, ast.If) and child is p.test:
            return any(isinstance(x, ast.Raise) for st in p.body + p.orelse for x in ast.walk(st))
        if isinstance(p, ast.Assert) and child is p.test:
            return True
        if isinstance(p, ast.stmt):
            return False
        child, p = p, parent(p)
    return False


def run_rule(chk, rule, sym, *, scope, floor=6, only_funcs=None, only=None):
    validate_never_const(chk, rule, sym)
    n = 0
    for mod in chk.repo.modules.values():
        short = mod.name.split("_internal.")[-1]
        if not any(short.startswith(s) for s in scope):
            continue
        for q, f in mod.defs.items():
            if not isinstance(f, (ast.FunctionDef, ast.AsyncFunctionDef)):
                continue
            if only_funcs is not None and f.name not in only_funcs:
                continue
            for node, subj, kind, st in sites(f, sym, mod):
                if only is not None and not only(node, f):
                    continue
                n += 1
                chk.ob(
                    rule, mod, node, f"{q}: {kind} on `{norm(subj)[:60]}`", st == CLEAN,
                    f"{kind} `{norm(node)[:100]}` is made on `{norm(subj)[:60]}`, which may be a Const(T) (dtype of a literal or of a "
                    "function of literals) because it is not passed through types.without_const: the branch chosen for a column of "
                    "type T is not chosen for a constant of type T",
                )  # fmt: skip
    chk.floor(rule, "dtype test sites", n, floor)
