"""Optional-attribute discipline (nullness typestate for the AST's ``X | None`` slots).

Several slots of expression / verb nodes are declared ``X | None`` (a case expression
without ``otherwise``, an ``Alias`` that keeps uuids, ...).  A pipeline that leaves such a
slot empty is an *accepted* pipeline, so every place that dereferences the slot, iterates
it, or hands it to a callee whose parameter is not itself declared optional must sit
under a test that the slot is not None - otherwise the accepted pipeline ends in
``AttributeError: 'NoneType' ...`` instead of a result.

Slots are discovered from the source (dataclass fields and ``__init__`` parameters whose
annotation contains ``None`` and that are stored unchanged into ``self.<name>``); a slot
name is armed only if no class of the repository defines a *non-optional* attribute with
the same name (so that ``E.name`` identifies the slot without type inference).
"""

from __future__ import annotations

import ast

from .flow import dominating_tests, preceding_guards
from .source import dotted, enclosing_function, norm, parent


def _ann_optional(ann) -> bool:
    if ann is None:
        return False
    if isinstance(ann, ast.Constant) and isinstance(ann.value, str):
        try:
            ann = ast.parse(ann.value, mode="eval").body
        except SyntaxError:
            return "None" in ann.value
    for n in ast.walk(ann):
        if isinstance(n, ast.Constant) and n.value is None:
            return True
        if isinstance(n, ast.Name) and n.id == "Optional":
            return True
        if isinstance(n, ast.Attribute) and n.attr == "Optional":
            return True
    return False


CALLABLE_SLOTS: set = set()


def discover(sym):
    """{attr: [class names]} optional slots; {attr: [class names]} non-optional attributes"""
    opt, nonopt = {}, {}
    for ci in sym.classes.values():
        # dataclass / annotated class-level fields
        for st in ci.node.body:
            if isinstance(st, ast.AnnAssign) and isinstance(st.target, ast.Name):
                (opt if _ann_optional(st.annotation) else nonopt).setdefault(st.target.id, []).append(ci.name)
                if "Callable" in ast.unparse(st.annotation):
                    CALLABLE_SLOTS.add(st.target.id)
        init = ci.methods.get("__init__")
        if init is None:
            continue
        params = {}
        a = init.args
        for p in list(a.posonlyargs) + list(a.args) + list(a.kwonlyargs):
            params[p.arg] = p.annotation
            if p.annotation is not None and "Callable" in ast.unparse(p.annotation):
                CALLABLE_SLOTS.add(p.arg)
        for n in ast.walk(init):
            tgt = val = None
            if isinstance(n, ast.Assign) and len(n.targets) == 1:
                tgt, val = n.targets[0], n.value
            elif isinstance(n, ast.AnnAssign) and n.value is not None:
                tgt, val = n.target, n.value
            if not (isinstance(tgt, ast.Attribute) and isinstance(tgt.value, ast.Name) and tgt.value.id == "self"):
                continue
            if isinstance(val, ast.Name) and val.id in params and _ann_optional(params[val.id]):
                # the parameter must not have been replaced by a default before the store
                replaced = any(
                    isinstance(m, ast.Assign) and any(isinstance(t, ast.Name) and t.id == val.id for t in m.targets) and m.lineno < n.lineno
                    for m in ast.walk(init)
                )
                (nonopt if replaced else opt).setdefault(tgt.attr, []).append(ci.name)
            elif isinstance(val, ast.Constant) and val.value is None:
                opt.setdefault(tgt.attr, []).append(ci.name)
            else:
                nonopt.setdefault(tgt.attr, []).append(ci.name)
    # a method / function / module-level name of the same spelling makes `E.name` ambiguous as well
    for ci in sym.classes.values():
        for m in ci.methods:
            if m in opt:
                nonopt.setdefault(m, []).append(ci.name + " (method)")
    for mod in sym.repo.modules.values():
        for st in mod.tree.body:
            names = []
            if isinstance(st, (ast.FunctionDef, ast.ClassDef)):
                names = [st.name]
            elif isinstance(st, ast.Assign):
                names = [t.id for t in st.targets if isinstance(t, ast.Name)]
            for nm in names:
                if nm in opt:
                    nonopt.setdefault(nm, []).append(mod.name.split(".")[-1] + " (module-level)")
    return opt, nonopt


def _external_callee(mod, call) -> bool:
    """the callee is an attribute of an imported third-party module (sqa.Table, pl.col, ...)"""
    d = dotted(call.func)
    if not d or "." not in d:
        return False
    root = d.split(".")[0]
    tgt = mod.imports.get(root)
    return bool(tgt) and not tgt.startswith("pydiverse.transform")


def _external_receiver(mod, call) -> bool:
    """`x.m(..)` where `x` is a local / parameter that holds a third-party object: a parameter annotated with a third-party type,
    or a local only ever assigned from third-party constructors / method chains on such names.  What such a method does with None
    is the third party's contract."""
    f = call.func
    if not isinstance(f, ast.Attribute):
        return False
    base = f.value
    while isinstance(base, (ast.Attribute, ast.Call, ast.Subscript)):
        base = base.func if isinstance(base, ast.Call) else base.value
    if not isinstance(base, ast.Name):
        return False
    funcs = []
    fn = enclosing_function(call)
    while fn is not None:
        funcs.append(fn)
        fn = enclosing_function(fn)

    def ext_ann(a):
        if a is None:
            return False
        roots = {n.id for n in ast.walk(a) if isinstance(n, ast.Name)}
        ext = {r for r in roots if (t := mod.imports.get(r)) and not t.startswith("pydiverse.transform") and t.split(".")[0] not in ("typing", "collections", "uuid")}
        own = {r for r in roots if (t := mod.imports.get(r)) and t.startswith("pydiverse.transform")}
        return bool(ext) and not own and not any(isinstance(n, ast.Constant) and n.value is None for n in ast.walk(a))

    external: set = set()
    for fn in funcs:
        if isinstance(fn, ast.Lambda):
            continue
        for a in fn.args.args + fn.args.kwonlyargs:
            if ext_ann(a.annotation):
                external.add(a.arg)
    changed = True
    assigns: dict = {}
    for fn in funcs:
        for n in ast.walk(fn):
            if isinstance(n, ast.Assign) and len(n.targets) == 1 and isinstance(n.targets[0], ast.Name):
                assigns.setdefault(n.targets[0].id, []).append(n.value)

    def ext_val(v):
        b = v
        while isinstance(b, (ast.Attribute, ast.Call)):
            b = b.func if isinstance(b, ast.Call) else b.value
        if isinstance(b, ast.Name):
            return b.id in external or _external_callee(mod, ast.Call(func=ast.Attribute(value=b, attr="x", ctx=ast.Load()), args=[], keywords=[]))
        return False

    while changed:
        changed = False
        for name, vals in assigns.items():
            if name not in external and vals and all(ext_val(v) for v in vals):
                external.add(name)
                changed = True
    return base.id in external


def _is_none_test(test, expr_text, polarity):
    """does `test` holding with `polarity` imply `expr_text is not None`?"""
    if isinstance(test, ast.Compare) and len(test.ops) == 1 and isinstance(test.comparators[0], ast.Constant) and test.comparators[0].value is None:
        if norm(test.left) == expr_text:
            if isinstance(test.ops[0], ast.IsNot) and polarity:
                return True
            if isinstance(test.ops[0], ast.Is) and not polarity:
                return True
    if isinstance(test, ast.UnaryOp) and isinstance(test.op, ast.Not):
        return _is_none_test(test.operand, expr_text, not polarity)
    if polarity and norm(test) == expr_text:
        return True  # truthiness
    if isinstance(test, ast.BoolOp):
        if isinstance(test.op, ast.And) and polarity:
            return any(_is_none_test(v, expr_text, True) for v in test.values)
        if isinstance(test.op, ast.Or) and not polarity:
            return any(_is_none_test(v, expr_text, False) for v in test.values)
    return False


def _bool_locals(func):
    """{name: expression} for locals assigned exactly once (`has_limit = query.limit is not None`): a test on the local is a
    test on that expression as long as nothing it reads is re-assigned in between (the slot read is an attribute path that the
    function does not assign)"""
    if func is None or isinstance(func, ast.Lambda):
        return {}
    defs: dict = {}
    for n in ast.walk(func):
        if isinstance(n, ast.Assign) and len(n.targets) == 1 and isinstance(n.targets[0], ast.Name):
            defs.setdefault(n.targets[0].id, []).append(n.value)
    return {k: v[0] for k, v in defs.items() if len(v) == 1 and isinstance(v[0], (ast.Compare, ast.BoolOp, ast.UnaryOp))}


class _Expand(ast.NodeTransformer):
    def __init__(self, mapping):
        self.mapping = mapping

    def visit_Name(self, node):
        if isinstance(node.ctx, ast.Load) and node.id in self.mapping:
            import copy

            return copy.deepcopy(self.mapping[node.id])
        return node


def guarded(node, expr_text, func):
    stop = func if func is not None else None
    locals_ = _bool_locals(func)
    assigned_paths = {norm(t) for n in ast.walk(func) if isinstance(n, ast.Assign) for t in n.targets} if func is not None and not isinstance(func, ast.Lambda) else set()

    def expand(t):
        if locals_ and expr_text not in assigned_paths and any(isinstance(x, ast.Name) and x.id in locals_ for x in ast.walk(t)):
            import copy

            return _Expand(locals_).visit(copy.deepcopy(t))
        return t

    dom = [(expand(t), pol) for t, pol in dominating_tests(node, stop)]
    for t, pol in dom:
        if _is_none_test(t, expr_text, pol):
            return True
    # an earlier arm `A and <E is None>` was not taken while A holds here (elif chain / match cases on the same class): E is not None
    holds = {norm(t) for t, pol in dom if pol} | {norm(v) for t, pol in dom if pol and isinstance(t, ast.BoolOp) and isinstance(t.op, ast.And) for v in t.values}
    for t, pol in dom:
        if not pol and isinstance(t, ast.BoolOp) and isinstance(t.op, ast.And):
            rest = [v for v in t.values if norm(v) not in holds]
            if len(rest) == 1 and _is_none_test(rest[0], expr_text, False):
                return True
    if func is not None:
        for t, pol in preceding_guards(node, func):
            if _is_none_test(expand(t), expr_text, pol):
                return True
    return False


def _dc_param_optional(ci, argpos, kw):
    fields = list(ci.dataclass_fields())
    name = kw if kw is not None else (fields[argpos] if argpos is not None and argpos < len(fields) else None)
    if name is None:
        return None
    for c in ci.mro():
        for st in c.node.body:
            if isinstance(st, ast.AnnAssign) and isinstance(st.target, ast.Name) and st.target.id == name:
                return _ann_optional(st.annotation)
    return None


def _callee_param_optional(sym, mod, call, argpos=None, kw=None):
    """True / False / None(unresolved): is the receiving parameter declared optional?"""
    f = call.func
    target = None
    skip = 0
    if isinstance(f, ast.Name):
        if mod.has(f.id):
            nd = mod.defs.get(f.id)
            if isinstance(nd, ast.ClassDef):
                ci = sym.resolve_class(mod, f.id)
                if ci is not None:
                    fm = ci.find_method("__init__")
                    if fm:
                        target, skip = fm[1], 1
                    elif ci.is_dataclass:
                        return _dc_param_optional(ci, argpos, kw)
            elif isinstance(nd, (ast.FunctionDef, ast.AsyncFunctionDef)):
                target = nd
        else:
            ci = sym.resolve_class(mod, f.id)
            if ci is not None:
                fm = ci.find_method("__init__")
                if fm:
                    target, skip = fm[1], 1
                elif ci.is_dataclass:
                    return _dc_param_optional(ci, argpos, kw)
    elif isinstance(f, ast.Attribute) and isinstance(f.value, ast.Name) and f.value.id in ("cls", "self"):
        fn = enclosing_function(call)
        p = fn
        while p is not None and not isinstance(p, ast.ClassDef):
            p = parent(p)
        if p is not None:
            ci = sym.resolve_class(mod, p.name)
            if ci is not None:
                fm = ci.find_method(f.attr)
                if fm:
                    target, skip = fm[1], 1
                    decos = {norm(d) for d in fm[1].decorator_list}
                    if "staticmethod" in decos:
                        skip = 0
    if target is None:
        return None
    a = target.args
    pos = (list(a.posonlyargs) + list(a.args))[skip:]
    if kw is not None:
        for p in pos + list(a.kwonlyargs):
            if p.arg == kw:
                return _ann_optional(p.annotation)
        return None
    if argpos is not None and argpos < len(pos):
        return _ann_optional(pos[argpos].annotation)
    return None


def classify(sym, mod, node):
    """how the value of the Attribute node `node` (a slot read) is used:
    ('test'|'pass'|'store'|'deref'|'arg', detail)"""
    p = parent(node)
    if isinstance(p, ast.Compare):
        others = [p.left] + list(p.comparators)
        if all(isinstance(o, ast.Constant) and o.value is None for o in others if o is not node) and all(isinstance(o, (ast.Is, ast.IsNot, ast.Eq, ast.NotEq)) for o in p.ops):
            return "test", "compared with None"
        if all(isinstance(o, (ast.Is, ast.IsNot, ast.Eq, ast.NotEq)) for o in p.ops):
            return "test", "identity/equality comparison"
        return "deref", "ordering comparison"
    if isinstance(p, ast.Attribute) and p.value is node:
        return "deref", f".{p.attr}"
    if isinstance(p, ast.Subscript) and p.value is node:
        return "deref", "subscript"
    if isinstance(p, ast.Call) and p.func is node:
        # `E.name(...)`: only a slot that holds a callable can be meant; a data slot (`limit: int | None`) spelled like a
        # method of a third-party object (`select.limit(n)`) is that method
        return ("deref", "call") if node.attr in CALLABLE_SLOTS else ("pass", "method call on another class")
    if isinstance(p, (ast.For, ast.comprehension)) and p.iter is node:
        return "deref", "iteration"
    if isinstance(p, ast.Starred):
        return "deref", "unpacking"
    if isinstance(p, (ast.BinOp, ast.UnaryOp)) and not (isinstance(p, ast.UnaryOp) and isinstance(p.op, ast.Not)):
        return "deref", "operator"
    if isinstance(p, ast.Call):
        if node in p.args:
            i = p.args.index(node)
            if any(isinstance(a, ast.Starred) for a in p.args[:i]):
                return "arg", (p, None, None)
            return "arg", (p, i, None)
        for k in p.keywords:
            if k.value is node:
                return "arg", (p, None, k.arg)
    if isinstance(p, ast.keyword):
        call = parent(p)
        if isinstance(call, ast.Call):
            return "arg", (call, None, p.arg)
    if isinstance(p, (ast.If, ast.While, ast.IfExp)) and p.test is node:
        return "test", "truthiness"
    if isinstance(p, ast.BoolOp) or (isinstance(p, ast.UnaryOp) and isinstance(p.op, ast.Not)):
        return "test", "truthiness"
    if isinstance(p, (ast.Assign, ast.AnnAssign, ast.Return, ast.Yield, ast.Tuple, ast.List, ast.Dict, ast.IfExp, ast.NamedExpr, ast.FormattedValue, ast.JoinedStr, ast.Expr)):
        return "pass", type(p).__name__
    return "pass", type(p).__name__


def run_rule(chk, rule, sym, *, scope=None, floor_slots=3, floor_derefs=8):
    opt, nonopt = discover(sym)
    armed = {a: cls for a, cls in opt.items() if a not in nonopt and not a.startswith("__")}
    ambiguous = {a: (opt[a], nonopt[a]) for a in opt if a in nonopt}
    chk.note(f"{rule}: optional slots armed: " + ", ".join(f"{a} ({'/'.join(sorted(set(c)))})" for a, c in sorted(armed.items())))
    if ambiguous:
        chk.note(f"{rule}: not armed (a non-optional attribute of the same name exists): " + ", ".join(sorted(ambiguous)))
    n_deref = 0
    for mod in chk.repo.modules.values():
        if scope and not any(mod.name.startswith(s) or ("." + s) in mod.name for s in scope):
            continue
        for node in ast.walk(mod.tree):
            if not (isinstance(node, ast.Attribute) and isinstance(node.ctx, ast.Load) and node.attr in armed):
                continue
            kind, detail = classify(sym, mod, node)
            text = norm(node)
            func = enclosing_function(node)
            if kind == "arg":
                call, i, kw = detail
                if _external_callee(mod, call) or _external_receiver(mod, call):
                    chk.ok(rule, mod, node, f"{text} -> third-party callee {norm(call.func)[:40]} (its contract, not decided)")
                    continue
                o = _callee_param_optional(sym, mod, call, i, kw)
                if o is True:
                    chk.ok(rule, mod, node, f"{text} -> optional parameter of {norm(call.func)[:40]}")
                    continue
                what = f"passed to `{norm(call.func)[:50]}` whose receiving parameter is not declared optional" + ("" if o is False else " (callee unresolved)")
            elif kind == "deref":
                what = f"dereferenced ({detail})"
            else:
                continue
            n_deref += 1
            # inside a lambda / nested function the guard may sit outside it: walk out through all enclosing functions
            ok = False
            f = func
            nd = node
            while True:
                if guarded(nd, text, f):
                    ok = True
                    break
                if f is None:
                    break
                nd, f = f, enclosing_function(f)
                if not isinstance(nd, ast.Lambda):
                    break
            chk.ob(
                rule, mod, node, f"{text} {('arg of ' + norm(detail[0].func)[:40]) if kind == 'arg' else detail}", ok,
                f"optional slot `{text}` ({'/'.join(sorted(set(armed[node.attr])))}.{node.attr} may be None on an accepted pipeline) is {what} "
                "without a dominating `is not None` test",
            )  # fmt: skip
    chk.floor(rule, "optional slots armed", len(armed), floor_slots)
    chk.floor(rule, "guarded dereference sites of optional slots", n_deref, floor_derefs)
