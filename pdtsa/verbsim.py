"""Validation prefixes of the verbs, interpreted on stub tables.

A verb call first validates its arguments against the *metadata* of its input tables (column names, identities, types,
grouping state, back end) and then builds an AST node.  Which calls are rejected, and with which exception, is static
semantics of the DSL: it depends on metadata shapes only, never on data.  The validation code is interpreted from its
source (interp.Interp) on small stub tables - objects that carry exactly that metadata - for a table of scenarios per
verb; constructing the verb's AST node counts as "accepted".  The scenarios are the rejection rules of the property
statement plus their accepted neighbours, so the rule decides the *behaviour* of the validation, not its spelling.
"""

from __future__ import annotations

import ast

from .catalogue import DT, _ModuleNS
from .interp import ExcCtor, Func, Interp, Native, NoOp, Obj, PyRaise  # noqa: F401
from .source import AnalysisError, norm

STUBS = """
class Table:
    _cache: object = None
    _ast: object = None
    def __iter__(self):
        return [self._cache.cols[uid] for uid in self._cache.uuid_to_name]
    def __contains__(self, col):
        if isinstance(col, str):
            return col in self._cache.name_to_uuid
        if isinstance(col, ColName):
            return col.name in self._cache.name_to_uuid
        return col._uuid in self._cache.uuid_to_name
class Cache:
    backend: object = None
    partition_by: object = None
    name_to_uuid: object = None
    uuid_to_name: object = None
    cols: object = None
    derived_from: object = None
    limit: object = 0
    group_by: object = None
    is_filtered: object = False
    def update(self, node, right_cache=None):
        return _cache_update(self, node, right_cache)
class Ast:
    name: object = None
    def short_name(self):
        return self.name
class Col:
    name: object = None
    _uuid: object = None
    _dtype: object = None
    _ast: object = None
    def dtype(self):
        return self._dtype
    def ast_repr(self):
        return self.name
class ColName:
    name: object = None
    def ast_repr(self):
        return self.name
class Lit:
    val: object = None
    def iter_subtree_postorder(self):
        return [self]
    def iter_subtree_preorder(self):
        return [self]
    def iter_children(self):
        return []
    def dtype(self):
        return None
"""


class Accepted(Exception):
    def __init__(self, what, args, kwargs):
        self.what, self.args_, self.kwargs = what, args, kwargs


class World:
    def __init__(self, module, types_env=None):
        self.module = module
        self.env: dict = {}
        self.it = Interp(module, self.env)
        orig_call = self.it.call

        def call(f, args, kwargs, node, env):
            if isinstance(f, Native):
                return f.fn(*args, **kwargs)
            return orig_call(f, args, kwargs, node, env)

        self.it.call = call
        for c in ast.parse(STUBS).body:
            c.decorator_list = [ast.Name(id="dataclass", ctx=ast.Load())]
            self.env[c.name] = self.it.make_class(c, self.env)
            self.env[c.name].is_dataclass = True
        self.env["errors"] = _ModuleNS({"check_arg_type": NoOp("check_arg_type"), "check_vararg_type": NoOp("check_vararg_type"), "check_literal_type": NoOp("check_literal_type")})
        for e in ("TypeError", "ValueError", "DataTypeError", "FunctionTypeError", "ColumnNotFoundError", "SubqueryError", "KeyError", "AssertionError"):
            self.env[e] = ExcCtor(e)
        self.env["copy"] = _ModuleNS({"copy": Native(self._copy, "copy.copy")})
        self.env["rename"] = Native(lambda mapping: ("pipe", Native(lambda t, _m=mapping: self.rename_table(t, _m))), "rename")
        self.env["_cache_update"] = Native(lambda c, node, rc: (_ for _ in ()).throw(Accepted("Cache.update", (c, node, rc), {})), "Cache.update")
        # check_subquery may hand back a *rebuilt* new table: the stub returns a copy whose node records the call, so that a
        # result that is dropped (the next step continues with the old table) shows in the node that reaches Cache.update
        def _check_subquery(new, tbl, is_right=False):
            n2 = self._copy(new) if isinstance(new, Obj) else new
            if isinstance(n2, Obj):
                node = n2.attrs.get("_ast")
                trace = list(getattr(node, "_cs_trace", [])) if node is not None else []
                node2 = node
                if isinstance(node, Obj):
                    node2 = Obj(node.cls)
                    node2.attrs = dict(node.attrs)
                try:
                    node2._cs_trace = trace + ["right" if is_right else "left"]
                except AttributeError:
                    pass
                n2.attrs["_ast"] = node2
            return (n2, tbl)

        self.env["check_subquery"] = Native(_check_subquery, "check_subquery")
        self.env["str"] = str
        import functools as _ft
        import operator as _op

        self.env.setdefault("functools", _ModuleNS({"partial": _ft.partial, "reduce": _ft.reduce}))
        self.env.setdefault("operator", _ModuleNS({k: v for k, v in vars(_op).items() if not k.startswith("_")}))
        if types_env is not None:
            self.types_env = types_env
        # module-level helper functions of the verb module are interpreted on demand (a validation may live in a helper)
        defs = {st.name: st for st in module.tree.body if isinstance(st, ast.FunctionDef)}

        cdefs = {st.name: st for st in module.tree.body if isinstance(st, ast.ClassDef)}

        def resolve(name):
            if name in defs:
                f_ = Func(defs[name], self.env, self.it)
                self.env[name] = f_
                return f_
            if name in cdefs:
                # a small record class of the verb module (NamedTuple / dataclass): fields by position or keyword
                c_ = self.it.make_class(cdefs[name], self.env)
                if any("NamedTuple" in norm(b) for b in cdefs[name].bases):
                    c_.is_dataclass = True
                self.env[name] = c_
                return c_
            # names the module imports from the type system (`types`, `lca_type`, ..): the interpreted type functions
            tgt = module.imports.get(name, "")
            if types_env is not None and tgt:
                if tgt.endswith("tree.types"):
                    from .typefns import LazyNS

                    self.env[name] = LazyNS(dict(types_env))
                    return self.env[name]
                if ".tree.types." in tgt and tgt.rsplit(".", 1)[1] in types_env:
                    self.env[name] = types_env[tgt.rsplit(".", 1)[1]]
                    return self.env[name]
            raise KeyError(name)

        self.it.global_resolver = resolve
        # `from x import y` inside an interpreted function
        orig_stmt = self.it.exec_stmt

        def exec_stmt(st, env):
            if isinstance(st, ast.ImportFrom):
                for a in st.names:
                    nm = a.asname or a.name
                    if (st.module or "").endswith("tree.types") and types_env is not None and a.name in types_env:
                        env[nm] = types_env[a.name]
                    elif nm in self.env:
                        env[nm] = self.env[nm]
                    else:
                        raise AnalysisError(f"verbsim: import of `{a.name}` from `{st.module}` is not modelled")
                return
            if isinstance(st, ast.Import):
                return
            return orig_stmt(st, env)

        self.it.exec_stmt = exec_stmt

    @staticmethod
    def _copy(o):
        if isinstance(o, Obj):
            n = Obj(o.cls)
            n.attrs = dict(o.attrs)
            return n
        import copy

        return copy.copy(o)

    def rename_table(self, table, mapping):
        """stub of `table >> rename({col: new_name})`: same identities, new visible names"""
        c = table.attrs["_cache"]
        n2u = {}
        for name, uid in c.attrs["name_to_uuid"].items():
            new = name
            for k, v in mapping.items():
                kn = k.attrs.get("_uuid") if isinstance(k, Obj) else None
                if kn == uid or k == name:
                    new = v
            n2u[new] = uid
        nc = self._copy(c)
        nc.attrs["name_to_uuid"] = n2u
        nc.attrs["uuid_to_name"] = {u: n for n, u in n2u.items()}
        nt = self._copy(table)
        nt.attrs["_cache"] = nc
        return nt

    def accept_on(self, *names):
        """calling one of these (the verb's AST node constructor) means the validation accepted the call"""
        for nm in names:
            self.env[nm] = Native(lambda *a, _n=nm, **k: (_ for _ in ()).throw(Accepted(_n, a, k)), nm)

    def obj(self, cls, **kw):
        o = Obj(self.env[cls])
        for n, d in self.env[cls].fields:
            o.attrs[n] = None
        o.attrs.update(kw)
        return o

    def table(self, name, cols, *, backend="polars", grouped=(), hidden=(), ancestors=None):
        """cols: [(name, dtype)] visible; hidden: [(name, dtype)] in scope but not visible"""
        ast_ = self.obj("Ast", name=name)
        cobjs = {}
        n2u, u2n = {}, {}
        for i, (cn, dt) in enumerate(list(cols) + list(hidden)):
            uid = f"{name}.{cn}#{i}"
            cobjs[uid] = self.obj("Col", name=cn, _uuid=uid, _dtype=dt, _ast=ast_)
            if i < len(cols):
                n2u[cn] = uid
                u2n[uid] = cn
        cache = self.obj(
            "Cache", backend=backend, partition_by=[n2u[g] for g in grouped], name_to_uuid=n2u, uuid_to_name=u2n, cols=cobjs,
            derived_from=set(ancestors) | {ast_} if ancestors else {ast_}, limit=0, group_by=set(), is_filtered=False,
        )  # fmt: skip
        return self.obj("Table", _cache=cache, _ast=ast_)

    def run(self, func_node, args, kwargs=None):
        """('accepted', node name) | ('raise', exception class name) | ('returned', value)"""
        fn = Func(func_node, self.env, self.it)
        try:
            r = self.it.call(fn, list(args), dict(kwargs or {}), func_node, self.env)
            return ("returned", r)
        except Accepted as a:
            return ("accepted", a.what)
        except PyRaise as p:
            return ("raise", p.name, p.msg)


def stub_preprocess_arg(world):
    """model of verbs.preprocess_arg for bare column arguments (decided itself by C09): C.name resolves against the table,
    a Col must be in scope of the table; everything else is ColumnNotFoundError"""

    def pp(arg, table, **_kw):
        c = table.attrs["_cache"]
        if isinstance(arg, Obj) and arg.cls.name == "ColName":
            nm = arg.attrs["name"]
            if nm not in c.attrs["name_to_uuid"]:
                raise PyRaise("ColumnNotFoundError", f"no column {nm}")
            return c.attrs["cols"][c.attrs["name_to_uuid"][nm]]
        if isinstance(arg, Obj) and arg.cls.name == "Col":
            if arg.attrs["_uuid"] not in c.attrs["cols"]:
                raise PyRaise("ColumnNotFoundError", "column not in scope")
            return arg
        return arg

    return Native(pp, "preprocess_arg")
