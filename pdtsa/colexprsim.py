"""Typing rules of composite expressions (tree/col_expr.py) interpreted on stub children.

``CaseExpr.dtype`` / ``CaseExpr.ftype`` / ``ColFn.dtype`` / ``ColFn.ftype`` / ``wrap_literals`` are pure functions of the
*types* of their children (data type incl. the ``Const`` marker, function type element-wise / aggregate / window).  They are
interpreted from source (program.Program, the type system bound to the validated model) for every combination of child
kinds of a small universe and compared with the rule stated in the documentation of the DSL:

* a case expression is constant iff every condition, every value and the default are constant;
* the function type of a composite is the strongest one among its children (window > aggregate > element-wise), where
  constant values do not count, aggregate and element-wise *values* of one case expression do not mix, and the nesting
  table of ``ColFn.ftype`` (its docstring) holds;
* a function result is constant only for element-wise functions of constant arguments;
* an ordering marker is only accepted at the root of an expression.
"""

from __future__ import annotations

import itertools

from .catalogue import DT
from .interp import Obj, PyRaise, SymbolicBranch  # noqa: F401
from .source import AnalysisError


class ColExprWorld:
    def __init__(self, repo, types_env):
        from .program import Program

        self.p = Program(repo, types_env, primary="tree.col_expr")
        self.mod = repo.mod("tree.col_expr")
        self.env = self.p.env_of(self.mod)
        self.F = self.env["Ftype"]
        self.EW, self.AGG, self.WIN = self.F.ELEMENT_WISE, self.F.AGGREGATE, self.F.WINDOW
        self.I, self.B, self.S = DT("Int64"), DT("Bool"), DT("String")

    def col(self, dt, ft, name="c"):
        if not hasattr(self, "_node"):
            self._node = self.p.new("tree.verbs", "Ungroup", child=None, name="tbl")
        return self.p.new("tree.col_expr", "Col", name=name, _ast=self._node, _uuid="u-" + name, _dtype=dt, _ftype=ft)

    def const(self, dt):
        return self.p.new("tree.col_expr", "LiteralCol", val=1, _dtype=DT("Const", dt), _ftype=self.EW)

    def child(self, kind, dt):
        """kind: 'const' | 'ew' | 'agg' | 'win'"""
        if kind == "const":
            return self.const(dt)
        return self.col(dt, {"ew": self.EW, "agg": self.AGG, "win": self.WIN}[kind], kind)

    def case(self, cases, default):
        return self.p.new("tree.col_expr", "CaseExpr", cases=list(cases), default_val=default, _dtype=None, _ftype=None, _fn_id="fn")

    def run(self, obj, meth, **kw):
        try:
            return ("value", self.p.call(self.p.method(obj, meth), [], kw))
        except PyRaise as e:
            return ("raise", e.name)


def is_const(dt):
    return isinstance(dt, DT) and dt.cls == "Const"


def case_scenarios(w: ColExprWorld):
    """-> list of (rule, description, ok, detail)"""
    out = []
    kinds = ("const", "ew", "agg", "win")
    # ---- dtype: constness and condition type
    for ck, vk, dk in itertools.product(("const", "ew"), ("const", "ew"), ("const", "ew", None)):
        c = w.case([(w.child(ck, w.B), w.child(vk, w.I))], None if dk is None else w.child(dk, w.I))
        r = w.run(c, "dtype")
        want_const = ck == "const" and vk == "const" and dk in ("const", None)
        ok = r[0] == "value" and isinstance(r[1], DT) and is_const(r[1]) == want_const and (r[1].base if is_const(r[1]) else r[1]) == w.I
        out.append(("CaseExpr.dtype", f"condition {ck}, value {vk}, default {dk}: {'const ' if want_const else ''}Int64", ok,
                    f"case expression with a {ck} condition, a {vk} value and {dk or 'no'} default is typed {r[1]!r}; documented: "
                    f"{'const ' if want_const else ''}Int64 (constant iff conditions, values and default are all constant - a constant column is "
                    "left out of GROUP BY and inlined as a literal by the SQL back ends)"))  # fmt: skip
    c = w.case([(w.child("ew", w.I), w.child("ew", w.I))], None)
    r = w.run(c, "dtype")
    out.append(("CaseExpr.dtype", "non-boolean condition -> DataTypeError", r == ("raise", "DataTypeError"), f"a case expression with an Int64 condition gives {r}"))
    c = w.case([(w.child("ew", w.B), w.child("ew", w.I))], w.child("ew", w.S))
    r = w.run(c, "dtype")
    out.append(("CaseExpr.dtype", "values without a common type -> DataTypeError", r == ("raise", "DataTypeError"), f"a case expression with Int64 and String values gives {r}"))
    # ---- unresolved children: nothing is decided (and nothing cached) before every child has a type
    for which in ("condition", "value", "default"):
        unresolved = w.col(None, None, "unres")
        conds = [(unresolved if which == "condition" else w.child("ew", w.B), unresolved if which == "value" else w.child("const", w.I))]
        c = w.case(conds, unresolved if which == "default" else w.child("const", w.I))
        r = w.run(c, "dtype")
        out.append(("CaseExpr.dtype", f"unresolved {which} (a C-column): the type is undetermined and not cached",
                    r == ("value", None) and c.attrs.get("_dtype") is None,
                    f"a case expression whose {which} has no type yet (a `C.` column before the verb resolves it) gives {r} and caches _dtype = "
                    f"{c.attrs.get('_dtype')!r}: a type decided early is inherited by the resolved copy, so the checks on the resolved "
                    "children (boolean condition, common value type) never run"))  # fmt: skip
    # ---- ftype
    rank = {"const": 0, "ew": 0, "agg": 1, "win": 2}
    ft_of = {0: w.EW, 1: w.AGG, 2: w.WIN}
    for ck, v1, v2, dk in itertools.product(kinds[1:], kinds, kinds, kinds + (None,)):
        vals = [v1, v2] + ([dk] if dk is not None else [])
        c = w.case([(w.child(ck, w.B), w.child(v1, w.I)), (w.child("ew", w.B), w.child(v2, w.I))], None if dk is None else w.child(dk, w.I))
        r = w.run(c, "ftype", agg_is_window=False)
        nonconst = {v for v in vals if v != "const"}
        if "win" in nonconst:
            want = ("value", w.WIN)
        elif {"agg", "ew"} <= nonconst:
            want = ("raise", "FunctionTypeError")
        else:
            val_rank = max([rank[v] for v in nonconst], default=0)
            want = ("value", ft_of[max(val_rank, rank[ck])])
        out.append(("CaseExpr.ftype", f"first condition {ck}, values {v1}/{v2}, default {dk}", r == want,
                    f"case expression with a {ck} condition, {v1} / {v2} values and {dk or 'no'} default has function type {r}; documented: {want} "
                    "(a window / aggregate function anywhere in it - also in a condition - makes the expression one: the subquery guards and "
                    "the summarize check depend on it)"))  # fmt: skip
    return out


def colfn_scenarios(w: ColExprWorld):
    out = []
    p = w.p

    def op(ftype, ret=None, name="op"):
        from .interp import Native

        o = Obj.__new__(Obj)
        o.cls, o.attrs = w.env["Col"], {"name": name, "ftype": ftype, "return_type": Native(lambda arg_types, _r=ret: _r if _r is not None else w.I, "op.return_type")}
        return o

    def fn(o, args, **kw):
        return p.new("tree.col_expr", "ColFn", op=o, args=list(args), context_kwargs={k: list(v) for k, v in kw.items()}, _dtype=None, _ftype=None, _fn_id="fn")

    # ---- dtype constness
    for oft, name in ((w.EW, "element-wise"), (w.AGG, "aggregate"), (w.WIN, "window")):
        for argk in (("const",), ("const", "const"), ("const", "ew"), ()):
            f = fn(op(oft), [w.child(k, w.I) for k in argk])
            r = w.run(f, "dtype")
            want_const = oft == w.EW and all(k == "const" for k in argk)
            ok = r[0] == "value" and isinstance(r[1], DT) and is_const(r[1]) == want_const
            out.append(("ColFn.dtype", f"{name} function of {list(argk) or 'no'} arguments: {'const' if want_const else 'not const'}", ok,
                        f"the result of a {name} function applied to {list(argk) or 'no'} arguments is typed {r[1]!r}; documented: "
                        f"{'constant' if want_const else 'not constant'} (only an element-wise function of constants is a constant: `count()` "
                        "or `sum` of a literal depends on the rows, and a Const-typed value is accepted for Const parameters)"))  # fmt: skip
        f = fn(op(oft), [w.child("const", w.I)], arrange=[w.child("ew", w.I)])
        r = w.run(f, "dtype")
        out.append(("ColFn.dtype", f"{name} function of a constant with a non-constant context argument: not const", r[0] == "value" and not is_const(r[1]),
                    f"a {name} function with a non-constant `arrange` / `partition_by` argument is typed {r[1]!r}"))  # fmt: skip
    f = fn(op(w.EW, ret=False), [w.child("ew", w.I)])
    f.attrs["op"].attrs["return_type"] = __import__("pdtsa.interp", fromlist=["Native"]).Native(lambda a: None, "op.return_type")
    r = w.run(f, "dtype")
    out.append(("ColFn.dtype", "no matching signature -> DataTypeError", r == ("raise", "DataTypeError"), f"an operator without a matching signature gives {r}"))
    # ---- ftype nesting table (docstring of ColFn.ftype)
    table = {
        ("ew", "ew"): "ew", ("ew", "agg"): "agg", ("ew", "win"): "win",
        ("agg", "ew"): "agg", ("agg", "agg"): "err", ("agg", "win"): "err",
        ("win", "ew"): "win", ("win", "agg"): "win", ("win", "win"): "err",
    }  # fmt: skip
    ftv = {"ew": w.EW, "agg": w.AGG, "win": w.WIN}
    for (outer, inner), want in table.items():
        # non-error cells: the argument is a *column* of that function type (e.g. an aggregated column after summarize);
        # error cells: a function node of that kind nested inside the function
        if want == "err":
            inner_e = fn(op(ftv[inner], name=inner + "_fn"), [w.child("ew", w.I)])
        else:
            inner_e = w.child(inner, w.I)
        f = fn(op(ftv[outer], name=outer + "_fn"), [inner_e])
        r = w.run(f, "ftype", agg_is_window=False)
        exp = ("raise", "FunctionTypeError") if want == "err" else ("value", ftv[want])
        out.append(("ColFn.ftype", f"{outer}({inner}) -> {want}", r == exp, f"function type of a {outer} function applied to a {inner} {'function' if want == 'err' else 'column'}: {r}; documented {exp}"))
    # aggregates in mutate are window functions
    f = fn(op(w.AGG), [w.child("ew", w.I)])
    r = w.run(f, "ftype", agg_is_window=True)
    out.append(("ColFn.ftype", "aggregate with agg_is_window=True -> window", r == ("value", w.WIN), f"{r}"))
    r = w.run(fn(op(w.AGG), [w.child("ew", w.I)]), "ftype")
    out.append(("ColFn.ftype", "aggregate without context -> undetermined (None)", r == ("value", None), f"{r}"))
    return out


POISON_SRC = '''
class PoisonExpr(ColExpr):
    def __init__(self):
        self._dtype = None
        self._ftype = None

    def dtype(self):
        raise DataTypeError("poisoned child")

    def ftype(self, *, agg_is_window=None):
        return Ftype.ELEMENT_WISE

    def iter_children(self):
        return []

    def map_children(self, g):
        pass
'''


def eager_scenarios(w: ColExprWorld):
    """eager type checking reaches every child: `<node>.dtype()` of a composite node one of whose children has a type error
    (a stub child whose own dtype() raises DataTypeError) raises - whichever slot the child sits in (condition / value / default
    of a case expression, positional argument / partition_by= / arrange= of a function, operand of a cast)."""
    import ast as _ast

    from .interp import Native

    p = w.p
    if "PoisonExpr" not in w.env:
        for c in _ast.parse(POISON_SRC).body:
            w.env[c.name] = p.make_class(c, w.env)
    out = []

    def poison():
        return p.call(w.env["PoisonExpr"], [])

    def good(dt=None, kind="ew"):
        return w.child(kind, dt or w.I)

    def op(ftype):
        o = Obj.__new__(Obj)
        o.cls, o.attrs = w.env["Col"], {"name": "op", "ftype": ftype, "return_type": Native(lambda arg_types: w.I, "op.return_type")}
        return o

    def fn(args, **kw):
        return p.new("tree.col_expr", "ColFn", op=op(w.WIN), args=list(args), context_kwargs={k: list(v) for k, v in kw.items()}, _dtype=None, _ftype=None, _fn_id="fn")

    def order(e):
        return p.new("tree.col_expr", "Order", order_by=e, descending=False, nulls_last=None)

    cases = [
        ("CaseExpr", "the condition of a case", lambda: w.case([(poison(), good())], good())),
        ("CaseExpr", "the condition of the second case", lambda: w.case([(good(w.B), good()), (poison(), good())], None)),
        ("CaseExpr", "a value of a case", lambda: w.case([(good(w.B), poison())], good())),
        ("CaseExpr", "the value of the second case", lambda: w.case([(good(w.B), good()), (good(w.B), poison())], None)),
        ("CaseExpr", "the default value", lambda: w.case([(good(w.B), good())], poison())),
        ("ColFn", "the first positional argument", lambda: fn([poison(), good()])),
        ("ColFn", "a later positional argument", lambda: fn([good(), poison()])),
        ("ColFn", "a partition_by= argument", lambda: fn([good()], partition_by=[good(), poison()])),
        ("ColFn", "an arrange= argument", lambda: fn([good()], arrange=[order(good()), order(poison())])),
    ]
    if "Cast" in w.env:
        cases.append(("Cast", "the operand of a cast", lambda: p.new("tree.col_expr", "Cast", val=poison(), target_type=w.I, strict=True, _dtype=None, _ftype=None)))
    for cls_, slot, build in cases:
        try:
            node = build()
        except PyRaise as e:
            out.append(("eager.dtype", f"{cls_} with a type error in {slot}: built", False, f"building the {cls_} stub raises {e.name}: {e.msg}"))
            continue
        r = w.run(node, "dtype")
        out.append(("eager.dtype", f"{cls_}.dtype() with a type error in {slot} -> DataTypeError", r == ("raise", "DataTypeError"),
                    f"{cls_}.dtype() gives {r} although {slot} has a type error: a type error nested there is not raised when the expression is built / "
                    "preprocessed (the verb call succeeds and the error surfaces at export or never)"))  # fmt: skip
    return out


def marker_scenarios(w: ColExprWorld):
    """wrap_literals: ordering markers are accepted only at the root of an expression"""
    out = []
    p = w.p
    wl = w.env["wrap_literals"]
    marker_cls = w.env["Marker"]

    def op(marker):
        if marker:
            o = Obj(marker_cls)
            o.attrs.update({"name": "descending", "ftype": w.EW})
            return o
        o = Obj.__new__(Obj)
        o.cls, o.attrs = w.env["Col"], {"name": "add", "ftype": w.EW}
        return o

    def fn(marker, args):
        return p.new("tree.col_expr", "ColFn", op=op(marker), args=list(args), context_kwargs={}, _dtype=None, _ftype=None, _fn_id="fn")

    col = w.child("ew", w.I)
    m = fn(True, [col])
    nested = fn(False, [m, w.const(w.I)])
    plain = fn(False, [col, w.const(w.I)])
    for desc, e, allow, want in (
        ("marker at the root, markers allowed", m, True, "same"),
        ("marker at the root, markers not allowed", m, False, "TypeError"),
        ("marker as an argument of a function, at the root of a verb argument", nested, False, "TypeError"),
        ("marker as an argument of a function, below another function (markers allowed for the wrapped node itself)", nested, True, "TypeError"),
        ("no marker", plain, False, "same"),
        ("no marker, markers allowed", plain, True, "same"),
    ):
        try:
            r = p.call(wl, [e], {"allow_markers": allow})
            got = "same" if r is e else repr(r)
        except PyRaise as ex:
            got = ex.name
        out.append(("wrap_literals", desc, got == want,
                    f"wrap_literals on an expression with a {desc}: {got}; documented: {want} (a marker nested inside a column function is rejected "
                    "when the expression is built, not when it is exported)"))  # fmt: skip
    # the same rule at construction time: the constructors of function and cast nodes reject a marker among their operands
    from .interp import Native

    ColFn, Cast = w.env["ColFn"], w.env["Cast"]

    def mk_op(marker):
        o = op(marker)
        o.attrs.update({"return_type": Native(lambda arg_types: w.I, "op.return_type"), "context_kwargs": [], "name": "descending" if marker else "add"})
        return o

    def marker_expr():
        e = fn(True, [col])
        e.attrs["op"] = mk_op(True)
        return e

    for desc, build, want in (
        ("function of a marker expression: `t.a.descending() + 1`", lambda: p.call(ColFn, [mk_op(False), marker_expr(), w.const(w.I)]), "TypeError"),
        ("marker of a marker: `t.a.descending().nulls_last()`", lambda: p.call(ColFn, [mk_op(True), marker_expr()]), "ok"),
        ("function of plain operands", lambda: p.call(ColFn, [mk_op(False), col, w.const(w.I)]), "ok"),
        ("cast of a marker expression: `t.a.descending().cast(..)`", lambda: p.call(Cast, [marker_expr(), DT("Float64")]), "TypeError"),
    ):
        try:
            r = build()
            got = "ok" if isinstance(r, Obj) else repr(r)
        except PyRaise as ex:
            got = ex.name
        out.append(("wrap_literals", "constructor: " + desc, got == want,
                    f"building a {desc} gives {got}; documented: {want} (markers are only accepted at the top of an expression, and the misuse is "
                    "reported when the expression is built)"))  # fmt: skip
    return out


def map_scenarios(w: ColExprWorld):
    """`ColExpr.map` interpreted: one case per mapping entry, in the order of the mapping; the condition of an entry compares
    the input with the key - a tuple / list key with each of its elements, any other key (a *string* too: it is one value, not
    its characters) as a whole; the value is the entry's value; without `default` the input itself is the default."""
    from .interp import Native
    from .polsim import _OpsNS

    class _TypedOps(_OpsNS):
        """`ops.<name>`: opaque element-wise operators whose result type is Bool (the scenario only reads the tree that is built)"""

        def __getattr__(self_, k):
            o = super().__getattr__(k)
            if "return_type" not in o.attrs:
                o.attrs["ftype"] = w.EW
                o.attrs["return_type"] = Native(lambda arg_types: w.B, "op.return_type")
            return o

    out = []
    prev = w.env.get("ops")
    w.env["ops"] = _TypedOps()
    try:
        return _map_scenarios(w)
    finally:
        if prev is not None:
            w.env["ops"] = prev
        else:
            w.env.pop("ops", None)


def _map_scenarios(w):
    out = []
    x = w.col(w.S, w.EW, "x")
    mapping = {"ab": "v1", ("p", "qr"): "v2", 7: "v3", ("solo",): "v4", "": "v5"}
    want = [["ab"], ["p", "qr"], [7], ["solo"], [""]]
    want_vals = ["v1", "v2", "v3", "v4", "v5"]

    def lit(o):
        return o.attrs.get("val") if isinstance(o, Obj) and o.cls.name == "LiteralCol" else ("<not a literal>", o)

    for label, kw in (("no default", {}), ("with a default", {"default": "dflt"})):
        try:
            r = w.p.call(w.p.method(x, "map"), [mapping], kw)
        except PyRaise as e:
            out.append(("ColExpr.map", f"map({label})", False, f"`x.map({mapping})` raises {e.name}: {e.msg}"))
            continue
        if not (isinstance(r, Obj) and r.cls.name == "CaseExpr"):
            out.append(("ColExpr.map", f"map({label}) is a case expression", False, f"`x.map(..)` gives {r!r}"))
            continue
        cases = list(r.attrs.get("cases") or [])
        got, vals, heads, fns = [], [], [], []
        for c in cases:
            cond, val = c[0], c[1]
            args = list(cond.attrs.get("args") or []) if isinstance(cond, Obj) else []
            heads.append(bool(args) and args[0] is x)
            fns.append(getattr(cond.attrs.get("op"), "attrs", {}).get("name") if isinstance(cond, Obj) else None)
            got.append([lit(a) for a in args[1:]])
            vals.append(lit(val))
        out.append(("ColExpr.map", f"map({label}): one `is_in` comparison of the input per entry, in order", fns == ["is_in"] * len(want) and all(heads),
                    f"`x.map({mapping})` builds the conditions {fns} (first argument the input: {heads}); documented: one `x.is_in(..)` per entry"))  # fmt: skip
        out.append(("ColExpr.map", f"map({label}): a string key is one value, a tuple key is its elements", got == want,
                    f"`x.map({mapping})` compares the input with {got}; documented {want} - a string key is a single value (`'ab'` is not `'a'`, `'b'`), "
                    "a tuple key stands for each of its elements"))  # fmt: skip
        out.append(("ColExpr.map", f"map({label}): each entry yields its value", vals == want_vals, f"`x.map({mapping})` yields {vals}; documented {want_vals}"))
        d = r.attrs.get("default_val")
        ok = (d is x) if not kw else lit(d) == "dflt"
        out.append(("ColExpr.map", f"map({label}): the default is {'the input itself' if not kw else 'the given value'}", ok,
                    f"`x.map(.., {label})` has the default {d!r}; documented: {'the input expression (values without an entry stay as they are)' if not kw else 'the literal dflt'}"))  # fmt: skip
    return out


_cache: dict = {}


def scenarios(chk, m):
    """all scenario results, computed once per repository: {rule group: [(description, ok, detail)]} or an AnalysisError"""
    from .rules.c17 import m_types_env

    k = id(chk.repo)
    if k not in _cache:
        try:
            w = ColExprWorld(chk.repo, m_types_env(m))
            res = {}
            for f in (case_scenarios, colfn_scenarios, marker_scenarios, eager_scenarios):
                for rule, desc, ok, det in f(w):
                    res.setdefault(rule, []).append((desc, ok, det))
            try:  # (a group of its own: when it cannot be interpreted the other groups stay decided)
                for rule, desc, ok, det in map_scenarios(w):
                    res.setdefault(rule, []).append((desc, ok, det))
            except (AnalysisError, SymbolicBranch, KeyError) as e:
                res["ColExpr.map"] = AnalysisError(f"ColExpr.map could not be interpreted: {str(e)[:160]}")
            _cache[k] = res
        except (AnalysisError, SymbolicBranch, KeyError) as e:
            _cache[k] = AnalysisError(f"expression typing rules could not be interpreted: {str(e)[:160]}")
    return _cache[k]


def report(chk, m, rule, groups, floor=None):
    """obligations for the given groups (`CaseExpr.dtype`, `CaseExpr.ftype`, `ColFn.dtype`, `ColFn.ftype`, `wrap_literals`)"""
    res = scenarios(chk, m)
    mod = chk.repo.mod("tree.col_expr")
    if isinstance(res, AnalysisError):
        chk.undecided.append(f"{rule}: {res}")
        return False
    n = 0
    for g in groups:
        if isinstance(res.get(g), AnalysisError):
            chk.undecided.append(f"{rule}: {res[g]}")
            return False
        anchor = mod.func({"eager.dtype": "ColFn.dtype"}.get(g, g))
        for desc, ok, det in res.get(g, []):
            n += 1
            chk.ob(rule, mod, anchor, f"{g}: {desc}", ok, det)
    if floor:
        chk.floor(rule, "expression typing scenarios", n, floor)
    return True
