"""Expression-tree primitives interpreted on stub trees (map_subtree / map_children / iter_children / iter_subtree_*).

The classes of tree/col_expr.py are loaded into the interpreter from their source (with inheritance); expression objects
are built field by field (no constructor runs, so no type checking or operator registry is needed) and the traversal
primitives are interpreted on them.  What is decided: the *protocol* of the primitives - which objects are copied, which
are handed to the callback, in which order, and that the input tree is left untouched - for every node class.
"""

from __future__ import annotations

import ast

from .interp import Func, Native, Obj, PyRaise
from .source import AnalysisError
from .termsim import TermWorld


class ExprWorld(TermWorld):
    def __init__(self, repo):
        super().__init__(repo.mod("tree.col_expr"))
        import copy

        from .catalogue import _ModuleNS

        self.env["copy"] = _ModuleNS({"copy": Native(copy.copy, "copy.copy")})
        import functools

        self.env["functools"] = _ModuleNS({"partial": functools.partial, "reduce": functools.reduce})
        self.env.setdefault("Callable", None)

    def cls(self, name):
        v = self.env.get(name)
        if v is None:
            try:
                v = self.it.global_resolver(name)
            except KeyError:
                raise AnalysisError(f"exprsim: class {name} not found in tree/col_expr.py") from None
        return v

    def new(self, cls_name, **attrs):
        o = Obj(self.cls(cls_name))
        o.attrs.update(attrs)
        return o

    # ---- a tree that uses every child-bearing slot of every node class
    def sample_tree(self):
        col = lambda n: self.new("Col", name=n, _uuid=f"u-{n}", _dtype=None, _ftype=None, _ast=None)  # noqa: E731
        lit = lambda v: self.new("LiteralCol", val=v, _dtype=None)  # noqa: E731
        op = Obj.__new__(Obj)
        op.cls, op.attrs = self.cls("Col"), {"name": "op"}  # an opaque operator object (never traversed)
        inner = self.new("ColFn", op=op, args=[col("b"), lit(1)], context_kwargs={}, _dtype=None, _ftype=None)
        order = self.new("Order", order_by=col("c"), descending=False, nulls_last=None)
        case = self.new("CaseExpr", cases=[(col("p"), lit(2)), (col("q"), col("r"))], default_val=lit(3), _dtype=None, _ftype=None)
        cast = self.new("Cast", val=col("s"), target_type=None, strict=True, _dtype=None, _ftype=None)
        root = self.new(
            "ColFn", op=op, args=[col("a"), inner, case, cast],
            context_kwargs={"arrange": [order], "partition_by": [col("d")]}, _dtype=None, _ftype=None,
        )  # fmt: skip
        return root

    @staticmethod
    def children_struct(o, seen=None):
        """identity structure of a tree: {id(obj): (class, {attr: ids / values})} over all reachable Obj"""
        seen = {} if seen is None else seen

        def ref(v):
            if isinstance(v, Obj):
                ExprWorld.children_struct(v, seen)
                return ("obj", id(v))
            if isinstance(v, (list, tuple)):
                return (type(v).__name__, id(v) if isinstance(v, list) else 0, tuple(ref(x) for x in v))
            if isinstance(v, dict):
                return ("dict", id(v), tuple((k, ref(x)) for k, x in v.items()))
            return ("val", repr(v))

        if id(o) in seen:
            return seen
        seen[id(o)] = None
        seen[id(o)] = (o.cls.name, {k: ref(v) for k, v in o.attrs.items()})
        return seen

    def expr_nodes(self, o):
        """all expression objects of a tree in Python (reference traversal over the known child slots)"""
        out = []

        def walk(v):
            if isinstance(v, Obj):
                if v.cls.name in ("Col", "LiteralCol", "ColName"):
                    out.append(v)
                    return
                for k, x in v.attrs.items():
                    if k in ("op", "target_type"):
                        continue
                    walk(x)
                out.append(v)
            elif isinstance(v, (list, tuple)):
                for x in v:
                    walk(x)
            elif isinstance(v, dict):
                for x in v.values():
                    walk(x)

        walk(o)
        return out


# =====================================================================================================================
# clone(): the whole-tree copy that every export / build_query works on
# =====================================================================================================================
LEAF_SRC = '''
class StubLeaf(AstNode):
    def __init__(self, name, col_names):
        self.name = name
        self.cols = {n: Col(n, self, _fresh_uuid(), None, None) for n in col_names}

    def _clone(self):
        cloned = StubLeaf(self.name, list(self.cols))
        return cloned, {self: cloned}, {self.cols[n]._uuid: cloned.cols[n]._uuid for n in self.cols}

    def iter_subtree_postorder(self):
        yield self

    def iter_subtree_preorder(self):
        yield self
'''


class CloneWorld:
    """tree/verbs.py + tree/col_expr.py interpreted together (program.Program); leaves are stubs"""

    def __init__(self, repo):
        from .program import Program

        self.p = Program(repo, primary="tree.verbs")
        self.vmod = repo.mod("tree.verbs")
        self.env = self.p.env_of(self.vmod)
        self.env["_fresh_uuid"] = Native(self.p.fresh_uuid, "uuid1")
        leaf = ast.parse(LEAF_SRC).body[0]
        self.env["StubLeaf"] = self.p.make_class(leaf, self.env)
        self.op = Obj.__new__(Obj)
        self.op.cls, self.op.attrs = self.env["StubLeaf"], {"name": "<op>"}

    def leaf(self, name, cols):
        return self.p.call(self.env["StubLeaf"], [name, cols])

    def verb(self, cls, child, **fields):
        return self.p.new("tree.verbs", cls, child=child, name=child.attrs.get("name"), **fields)

    def fn(self, *args, **kw):
        return self.p.new("tree.col_expr", "ColFn", op=self.op, args=list(args), context_kwargs=dict(kw), _dtype=None, _ftype=None)

    def lit(self, v):
        return self.p.new("tree.col_expr", "LiteralCol", val=v, _dtype=None, _ftype=None)

    def ref(self, node, uid, name="?"):
        return self.p.new("tree.col_expr", "Col", name=name, _ast=node, _uuid=uid, _dtype=None, _ftype=None)

    def order(self, e):
        return self.p.new("tree.col_expr", "Order", order_by=e, descending=False, nulls_last=None)

    def sample(self):
        """a pipeline using every verb class, an alias with fresh identities and a self-join"""
        t = self.leaf("t", ["a", "b"])
        ua, ub = t.attrs["cols"]["a"].attrs["_uuid"], t.attrs["cols"]["b"].attrs["_uuid"]
        um = self.p.fresh_uuid()
        mut = self.verb("Mutate", t, names=["m"], values=[self.fn(self.ref(t, ua, "a"), self.lit(1))], uuids=[um])
        fil = self.verb("Filter", mut, predicates=[self.fn(self.ref(mut, um, "m"), self.lit(0))])
        sel = self.verb("Select", fil, select=[self.ref(t, ua, "a"), self.ref(mut, um, "m")])
        ren = self.verb("Rename", sel, name_map={"m": "mm"})
        grp = self.verb("GroupBy", ren, group_by=[self.ref(t, ua, "a")], add=False)
        us = self.p.fresh_uuid()
        summ = self.verb("Summarize", grp, names=["s"], values=[self.fn(self.ref(mut, um, "m"), arrange=[self.order(self.ref(t, ub, "b"))])], uuids=[us])
        arr = self.verb("Arrange", summ, order_by=[self.order(self.ref(summ, us, "s"))])
        sl = self.verb("SliceHead", arr, n=3, offset=1)
        amap = {ua: self.p.fresh_uuid(), us: self.p.fresh_uuid()}
        al = self.verb("Alias", sl, uuid_map=amap)
        ung = self.verb("Ungroup", al)
        # right side: the same source again (self-join) below an alias of its own
        t2 = self.leaf("t", ["a", "b"])
        ua2 = t2.attrs["cols"]["a"].attrs["_uuid"]
        amap2 = {ua2: self.p.fresh_uuid(), t2.attrs["cols"]["b"].attrs["_uuid"]: self.p.fresh_uuid()}
        al2 = self.verb("Alias", t2, uuid_map=amap2)
        on = self.fn(self.ref(al, amap[ua], "a"), self.ref(al2, amap2[ua2], "a"))
        jn = self.verb("Join", ung, right=al2, on=on, how="left", validate="m:m")
        t3 = self.leaf("w", ["a", "b"])
        un = self.verb("Union", jn, right=t3, distinct=False)
        mk = self.verb("SubqueryMarker", un)
        um2 = self.p.fresh_uuid()
        top = self.verb("Mutate", mk, names=["z"], values=[self.fn(self.ref(al, amap[us], "s"), self.ref(al2, amap2[ua2], "a"))], uuids=[um2])
        return top

    def sample_self_join(self):
        """`t >> filter` joined with `t >> group_by >> summarize >> alias()`: both inputs are built on the *same* source
        object, and the alias covers only the columns that survive the summarize - the identity of the dropped column `b`
        must keep denoting the left input after cloning"""
        t = self.leaf("t", ["a", "b"])
        ua, ub = t.attrs["cols"]["a"].attrs["_uuid"], t.attrs["cols"]["b"].attrs["_uuid"]
        left = self.verb("Filter", t, predicates=[self.fn(self.ref(t, ub, "b"), self.lit(0))])
        grp = self.verb("GroupBy", t, group_by=[self.ref(t, ua, "a")], add=False)
        us = self.p.fresh_uuid()
        summ = self.verb("Summarize", grp, names=["s"], values=[self.fn(self.ref(t, ub, "b"))], uuids=[us])
        amap = {ua: self.p.fresh_uuid(), us: self.p.fresh_uuid()}
        al = self.verb("Alias", summ, uuid_map=amap)
        jn = self.verb("Join", left, right=al, on=self.fn(self.ref(t, ua, "a"), self.ref(al, amap[ua], "a")), how="left", validate="m:m")
        um = self.p.fresh_uuid()
        return self.verb("Mutate", jn, names=["d"], values=[self.fn(self.ref(t, ub, "b"), self.ref(al, amap[us], "s"))], uuids=[um])

    def sample_foreign_refs(self):
        """the tree after `collect()` / `transfer_col_references`: the source is a new table that *kept the column identities*
        of its origin, and the expressions above it still use the origin's column objects - references whose table node is
        not part of the tree.  They denote the new source's columns by identity, and must do so in the clone."""
        origin = self.leaf("t", ["a", "b"])
        ua, ub = origin.attrs["cols"]["a"].attrs["_uuid"], origin.attrs["cols"]["b"].attrs["_uuid"]
        new = self.leaf("t", ["a", "b"])
        new.attrs["cols"]["a"].attrs["_uuid"], new.attrs["cols"]["b"].attrs["_uuid"] = ua, ub  # identities preserved
        um = self.p.fresh_uuid()
        mut = self.verb("Mutate", new, names=["m"], values=[self.fn(self.ref(origin, ua, "a"), self.ref(new, ub, "b"))], uuids=[um])
        fil = self.verb("Filter", mut, predicates=[self.fn(self.ref(origin, ub, "b"), self.lit(0))])
        grp = self.verb("GroupBy", fil, group_by=[self.ref(origin, ua, "a")], add=False)
        arr = self.verb("Arrange", grp, order_by=[self.order(self.ref(origin, ub, "b"))])
        us = self.p.fresh_uuid()
        return self.verb("Mutate", arr, names=["w"], values=[self.fn(self.ref(mut, um, "m"), partition_by=[self.ref(origin, ua, "a")])], uuids=[us])

    # ---- reference reading of a tree (plain Python over the stub objects) -------------------------------------------
    @staticmethod
    def nodes(root):
        out = []

        def walk(n):
            out.append(n)
            for k in ("child", "right"):
                c = n.attrs.get(k)
                if isinstance(c, Obj):
                    walk(c)

        walk(root)
        return out

    def def_sites(self, root):
        """resolver of the tree: {(referencing node position, uuid): definition site}.  A reference in the expressions of the
        node at pre-order position i denotes the column found by searching that node's inputs: a Mutate / Summarize that
        creates the identity, a source table that has it, through an alias with fresh identities only via its map (left
        input of a join first).  Positions count every occurrence, so a source shared by both inputs of a self-join has two
        positions - exactly as in the clone, where it becomes two tables."""
        nodes = self.nodes(root)
        pos = {}
        # position of each occurrence: nodes() is a pre-order walk; children positions are computed by the same walk
        counter = [0]
        tree = []

        def walk(n):
            i = counter[0]
            counter[0] += 1
            kids = [walk(c) for k in ("child", "right") for c in [n.attrs.get(k)] if isinstance(c, Obj)]
            tree.append((i, n, kids))
            return i

        walk(root)
        kids_of = {i: k for i, _n, k in tree}
        node_at = {i: n for i, n, _k in tree}

        def resolve(i, uid, include_self):
            n = node_at[i]
            c = n.cls.name
            if c == "StubLeaf":
                for nm, col in n.attrs["cols"].items():
                    if col.attrs["_uuid"] == uid:
                        return (i, f"leaf:{nm}")
                return None
            if include_self and c in ("Mutate", "Summarize") and uid in (n.attrs.get("uuids") or []):
                return (i, n.attrs["uuids"].index(uid))
            if include_self and c == "Alias" and n.attrs.get("uuid_map") is not None:
                back = {new: old for old, new in n.attrs["uuid_map"].items()}
                if uid not in back:
                    return None
                uid = back[uid]
            for k in kids_of[i]:
                r = resolve(k, uid, True)
                if r is not None:
                    return r
            return None

        class _Sites(dict):
            def get_for(self_, i, uid):
                return resolve(i, uid, False)

        s_ = _Sites()
        s_.resolve = resolve
        return s_

    def col_refs(self, root):
        """[(node position, slot path, Col object)] for every column reference in the expressions of the tree"""
        out = []
        ew = ExprWorld.__new__(ExprWorld)
        for i, n in enumerate(self.nodes(root)):
            for k, v in n.attrs.items():
                if k in ("child", "right", "cols"):
                    continue
                for e in ExprWorld.expr_nodes(ew, v):
                    if e.cls.name == "Col":
                        out.append((i, k, e))
        return out


def traversal_problems(repo):
    """iter_subtree_preorder / iter_subtree_postorder of the AST interpreted on the sample pipeline (every verb class,
    both inputs of the binary verbs).  -> (number of nodes, [problem texts]); raises AnalysisError when undecidable"""
    w = CloneWorld(repo)
    root = w.sample()
    nodes = w.nodes(root)
    ids = {id(n): i for i, n in enumerate(nodes)}
    children = {id(n): [c for k in ("child", "right") for c in [n.attrs.get(k)] if isinstance(c, Obj)] for n in nodes}
    probs = []
    for meth, parent_first in (("iter_subtree_preorder", True), ("iter_subtree_postorder", False)):
        seq = list(w.p.it.iterate(w.p.call(w.p.method(root, meth), [])))
        got = [id(x) for x in seq]
        missing = [nodes[i].cls.name for k, i in ids.items() if k not in got]
        if missing:
            below_right = [n.cls.name for n in nodes if any(c is not None and id(c) not in got for c in [n.attrs.get("right")])]
            probs.append(f"{meth} does not reach {sorted(set(missing))}" + (f" (the right input of {sorted(set(below_right))} is skipped)" if below_right else ""))
            continue
        if len(got) != len(set(got)) or len(got) != len(nodes):
            probs.append(f"{meth} yields {len(got)} nodes for a tree of {len(nodes)} (a node is visited twice)")
            continue
        pos = {k: i for i, k in enumerate(got)}
        for n in nodes:
            for c in children[id(n)]:
                if (pos[id(n)] < pos[id(c)]) != parent_first:
                    probs.append(f"{meth}: {n.cls.name} and its input {c.cls.name} come in the wrong order")
                    break
    return len(nodes), probs
