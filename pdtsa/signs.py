"""Sign/magnitude abstract interpretation of small arithmetic implementations.

The catalogue documents ``//`` as truncating toward zero and ``%`` as taking the
sign of the dividend; Polars' own operators floor / follow the divisor, so the
Polars back end emulates the documented behaviour with ``abs``, comparisons with
zero and ``when/then/otherwise``.  These functions touch their operands only
through comparisons with 0, ``abs`` and arithmetic, hence they are decided
exactly on the finite set of sign cases: for every (sign lhs, sign rhs) the body
is evaluated over values ``multiplier * magnitude`` where the multiplier is in
{-1,0,1} and the magnitude is a symbolic non-negative term over a=|lhs|, b=|rhs|.
Polars/Python semantics of ``//`` and ``%`` on signed operands are the model
(trusted, 6 lines below).  An unsupported construct makes the rule *undecided*
(reported as a note, never as a violation).
"""

from __future__ import annotations

import ast

from .source import dotted, norm


class Undecided(Exception):
    pass


class Num:
    def __init__(self, mult, mag):
        self.mult = mult  # -1, 0, 1
        self.mag = mag  # symbolic term, >= 0 ;  value = mult * mag

    def key(self):
        if self.mult == 0 or self.mag == ("const", 0):
            return ("zero",)
        return (self.mult, self.mag)

    def __repr__(self):
        return f"{self.mult}*{self.mag}"


class Bool:
    def __init__(self, v):
        self.v = v


def _zero_mag(mag):
    return mag == ("const", 0)


class SignEval:
    def __init__(self, func: ast.FunctionDef, env: dict):
        self.func = func
        self.env = dict(env)

    def run(self):
        for st in self.func.body:
            if isinstance(st, ast.Expr) and isinstance(st.value, ast.Constant):
                continue
            if isinstance(st, ast.Assign) and len(st.targets) == 1 and isinstance(st.targets[0], ast.Name):
                self.env[st.targets[0].id] = self.ev(st.value)
            elif isinstance(st, ast.Return):
                return self.ev(st.value)
            else:
                raise Undecided(f"statement `{norm(st)[:60]}`")
        raise Undecided("no return")

    def ev(self, e):
        if isinstance(e, ast.Name):
            if e.id in self.env:
                return self.env[e.id]
            raise Undecided(f"name {e.id}")
        if isinstance(e, ast.Constant):
            if isinstance(e.value, bool):
                return Bool(e.value)
            if isinstance(e.value, int):
                v = e.value
                return Num(0 if v == 0 else (1 if v > 0 else -1), ("const", abs(v)))
            raise Undecided("constant")
        if isinstance(e, ast.UnaryOp):
            v = self.ev(e.operand)
            if isinstance(e.op, ast.USub) and isinstance(v, Num):
                return Num(-v.mult, v.mag)
            if isinstance(e.op, ast.Invert) and isinstance(v, Bool):
                return Bool(not v.v)
            raise Undecided("unary")
        if isinstance(e, ast.Call):
            fn = dotted(e.func)
            if fn == "abs" and len(e.args) == 1:
                v = self.ev(e.args[0])
                return Num(abs(v.mult), v.mag)
            if isinstance(e.func, ast.Attribute) and e.func.attr == "abs" and not e.args:
                v = self.ev(e.func.value)
                return Num(abs(v.mult), v.mag)
            # pl.when(c).then(x).otherwise(y)
            if isinstance(e.func, ast.Attribute) and e.func.attr == "otherwise" and len(e.args) == 1:
                th = e.func.value
                if isinstance(th, ast.Call) and isinstance(th.func, ast.Attribute) and th.func.attr == "then":
                    wh = th.func.value
                    if isinstance(wh, ast.Call) and isinstance(wh.func, ast.Attribute) and wh.func.attr == "when":
                        c = self.ev(wh.args[0])
                        if not isinstance(c, Bool):
                            raise Undecided("when() on a non-boolean")
                        return self.ev(th.args[0]) if c.v else self.ev(e.args[0])
            if isinstance(e.func, ast.Attribute) and e.func.attr == "sign" and not e.args:
                v = self.ev(e.func.value)
                if isinstance(v, Num):
                    z = v.key() == ("zero",)
                    return Num(0 if z else v.mult, ("const", 0) if z else ("const", 1))
            if isinstance(e.func, ast.Attribute) and e.func.attr in ("cast",):
                return self.ev(e.func.value)
            raise Undecided(f"call `{norm(e)[:50]}`")
        if isinstance(e, ast.Compare) and len(e.ops) == 1:
            l, r = self.ev(e.left), self.ev(e.comparators[0])
            if isinstance(l, Num) and isinstance(r, Num) and r.key() == ("zero",):
                s = 0 if l.key() == ("zero",) else l.mult
                op = e.ops[0]
                res = {ast.Lt: s < 0, ast.LtE: s <= 0, ast.Gt: s > 0, ast.GtE: s >= 0, ast.Eq: s == 0, ast.NotEq: s != 0}.get(type(op))
                if res is None:
                    raise Undecided("comparison")
                # a symbolic positive magnitude could still be zero only if mult==0 was chosen: sign cases fix it
                return Bool(res)
            raise Undecided("comparison with non-zero")
        if isinstance(e, ast.BinOp):
            l, r = self.ev(e.left), self.ev(e.right)
            if isinstance(l, Bool) and isinstance(r, Bool):
                if isinstance(e.op, ast.BitXor):
                    return Bool(l.v != r.v)
                if isinstance(e.op, ast.BitAnd):
                    return Bool(l.v and r.v)
                if isinstance(e.op, ast.BitOr):
                    return Bool(l.v or r.v)
                raise Undecided("bool op")
            if isinstance(l, Num) and isinstance(r, Num):
                if isinstance(e.op, ast.Mult):
                    if l.key() == ("zero",) or r.key() == ("zero",):
                        return Num(0, ("const", 0))
                    if _is_one(l):
                        return Num(l.mult * r.mult, r.mag)
                    if _is_one(r):
                        return Num(l.mult * r.mult, l.mag)
                    return Num(l.mult * r.mult, ("mul", l.mag, r.mag))
                if isinstance(e.op, ast.FloorDiv):
                    # model of Polars/Python `//`: floor.  same signs: floor(|x|/|y|); mixed: -ceil(|x|/|y|)
                    if r.key() == ("zero",):
                        return Num(1, ("null: division by a divisor the emulation made zero",))
                    if l.key() == ("zero",):
                        return Num(0, ("const", 0))
                    if l.mult * r.mult > 0:
                        return Num(1, ("fdiv", l.mag, r.mag))
                    return Num(-1, ("cdiv", l.mag, r.mag))
                if isinstance(e.op, ast.Mod):
                    # model of Polars/Python `%`: result has the sign of the divisor
                    if r.key() == ("zero",):
                        return Num(1, ("null: modulo by a divisor the emulation made zero",))
                    if l.key() == ("zero",):
                        return Num(0, ("const", 0))
                    if l.mult > 0 and r.mult > 0:
                        return Num(1, ("mod", l.mag, r.mag))
                    if l.mult < 0 and r.mult < 0:
                        return Num(-1, ("mod", l.mag, r.mag))
                    return Num(r.mult, ("compl-mod", l.mag, r.mag))
                if isinstance(e.op, ast.Sub) or isinstance(e.op, ast.Add):
                    raise Undecided("additive arithmetic")
            raise Undecided("binary operation")
        raise Undecided(f"expression `{norm(e)[:50]}`")


def _is_one(n: Num) -> bool:
    return n.mag == ("const", 1)


def analyse(func: ast.FunctionDef, kind: str):
    """returns list of (case, got, expected, ok)"""
    params = [a.arg for a in func.args.args]
    if len(params) != 2:
        raise Undecided("not a binary function")
    out = []
    for ls in (-1, 0, 1):
        for rs in (-1, 1):
            env = {params[0]: Num(ls, ("a",) if ls else ("const", 0)), params[1]: Num(rs, ("b",))}
            got = SignEval(func, env).run()
            if not isinstance(got, Num):
                raise Undecided("result is not numeric")
            if kind == "floordiv":
                exp = Num(ls * rs, ("fdiv", ("a",), ("b",))) if ls else Num(0, ("const", 0))
            else:
                exp = Num(ls, ("mod", ("a",), ("b",))) if ls else Num(0, ("const", 0))
            out.append(((ls, rs), got, exp, got.key() == exp.key()))
    return out


def check_polars_div_mod(chk, rule):
    from .model import model_of

    m = model_of(chk)
    n = 0
    for r in m.regs:
        if r.store != "PolarsImpl" or r.opvar not in ("floordiv", "mod"):
            continue
        n += 1
        try:
            res = analyse(r.func, r.opvar)
        except Undecided as u:
            chk.note(f"{rule}: sign analysis of PolarsImpl.{r.func.name} undecided ({u}); no verdict for this implementation")
            continue
        bad = [(c, g, e) for c, g, e, ok in res if not ok]
        for c, g, e, ok in res:
            chk.ob(
                rule, r.module, r.func, f"PolarsImpl.{r.func.name} sign case lhs={c[0]:+d} rhs={c[1]:+d}", ok,
                f"for sign(lhs)={c[0]:+d}, sign(rhs)={c[1]:+d} the body evaluates to {g} (a=|lhs|, b=|rhs|) but the "
                f"documented `{r.opvar}` is {e}: the result's sign/magnitude deviates from truncating division",
            )  # fmt: skip
    chk.floor(rule, "Polars floordiv/mod implementations", n, 2)
    chk.trusted.append("signs.py model: Polars `//` floors, `%` follows the divisor's sign (matches Python int semantics)")
