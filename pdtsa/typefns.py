"""Source-interpreted type system: the functions of ``tree/types.py`` and ``ops/signature.py``
evaluated from the current source by ``interp.Interp`` over modelled type descriptors.

``SourceTypes(cat)`` exposes ``converts_to``, ``conversion_cost``, ``implicit_conversions``,
``lca_type``, ``sig_distance``, ``best_signature_match`` and a trie per operator built with the
interpreted ``SignatureTrie.insert`` / matched with the interpreted ``best_match``.
Results are either values or ``PyRaise`` (exception class name of what the real code would raise).
"""

from __future__ import annotations

import ast
import copy as _copy
import datetime as _datetime
import functools
import operator

from .catalogue import DT, Catalogue, Op, TypeCtor, _ModuleNS
from .interp import ExcCtor, Interp, NoOp, PyRaise
from .source import AnalysisError


class LazyNS(_ModuleNS):
    """module namespace reading through to a dict that is still being filled (circular imports)"""

    def __init__(self, d):
        object.__setattr__(self, "_d", d)

    def __getattr__(self, k):
        d = object.__getattribute__(self, "_d")
        if k in d:
            return d[k]
        raise AttributeError(k)


# classes of tree/types.py that are part of the DT model (their methods are modelled by DT, validated by MODEL rules)
MODELLED_CLASSES = {"Const", "Tyvar"}
# functions of tree/types.py outside the type-level fragment (they map python values / engines, not types)
SKIP_FUNCS = {"to_python", "from_python"}


class SourceTypes:
    def __init__(self, cat: Catalogue):
        self.cat = cat
        repo = cat.repo
        T = cat.types
        tmod = repo.mod("tree.types")
        smod = repo.mod("ops.signature")
        self.tmod, self.smod = tmod, smod
        tenv: dict = dict(T.env)  # type constructors + folded tables (IMPLICIT_CONVS ...)
        senv: dict = {}
        tenv.update(
            {
                "copy": _ModuleNS({"copy": _copy.copy, "deepcopy": _copy.deepcopy}),
                "functools": _ModuleNS({"reduce": functools.reduce}),
                "operator": _ModuleNS({"and_": operator.and_, "or_": operator.or_, "add": operator.add}),
                "errors": _ModuleNS({"check_arg_type": NoOp("check_arg_type"), "DataTypeError": ExcCtor("DataTypeError")}),
                "DataTypeError": ExcCtor("DataTypeError"),
                "signature": LazyNS(senv),
                "NoneType": type(None),
                "datetime": _ModuleNS({k: getattr(_datetime, k) for k in ("datetime", "date", "time", "timedelta")}),
            }
        )
        memo = ("converts_to", "conversion_cost", "implicit_conversions", "is_const", "without_const", "with_const")
        self.ti = Interp(tmod, tenv, memo_funcs=memo)
        for st in tmod.tree.body:
            if isinstance(st, ast.FunctionDef) and st.name not in SKIP_FUNCS:
                self.ti.load_defs([st], tenv)
            elif isinstance(st, ast.ClassDef) and st.name not in MODELLED_CLASSES:
                raise AnalysisError(f"typefns: unexpected class `{st.name}` in {tmod.rel}")
        senv.update(
            {
                "types": LazyNS(tenv),
                "Dtype": TypeCtor("Dtype"),
                "Tyvar": TypeCtor("Tyvar"),
                "Ellipsis": Ellipsis,
                "dataclasses": _ModuleNS({"field": "dataclasses.field", "dataclass": None}),
            }
        )
        self.si = Interp(smod, senv, memo_funcs=("Node.all_matches", "sig_distance", "best_signature_match"))
        # both interpreters share one memo / step counter through the function objects' own interp
        self.si.load_defs(smod.tree.body, senv)
        self.tenv, self.senv = tenv, senv
        for need, env, mod in (
            ("converts_to", tenv, tmod), ("conversion_cost", tenv, tmod), ("implicit_conversions", tenv, tmod),
            ("lca_type", tenv, tmod), ("is_const", tenv, tmod), ("without_const", tenv, tmod), ("with_const", tenv, tmod),
            ("SignatureTrie", senv, smod), ("best_signature_match", senv, smod), ("sig_distance", senv, smod),
        ):  # fmt: skip
            if need not in env:
                raise AnalysisError(f"typefns: `{need}` not found in {mod.rel}")
        self._tries: dict[str, object] = {}

    # ---- plain functions -------------------------------------------------------------------------------
    def _t(self, name, *args):
        return self.ti.call(self.tenv[name], list(args), {}, None, None)

    def converts_to(self, a: DT, b: DT):
        return self._t("converts_to", a, b)

    def conversion_cost(self, a: DT, b: DT):
        return self._t("conversion_cost", a, b)

    def implicit_conversions(self, a: DT):
        return list(self._t("implicit_conversions", a))

    def lca_type(self, dtypes):
        return self._t("lca_type", list(dtypes))

    def sig_distance(self, sig, target):
        return self.si.call(self.senv["sig_distance"], [list(sig), list(target)], {}, None, None)

    # ---- tries ------------------------------------------------------------------------------------------------
    def trie(self, op: Op):
        t = self._tries.get(op.var)
        if t is None:
            t = self.si.call(self.senv["SignatureTrie"], [], {}, None, None)
            ins = t.cls.methods["insert"].bind(t)
            for s in op.signatures:
                # Operator.__init__: self.trie.insert(sig.types, sig.return_type, sig.is_vararg)
                self.si.call(ins, [tuple(s.types), s.return_type, s.is_vararg], {}, None, None)
            self._tries[op.var] = t
        return t

    def best_match(self, op: Op, sig):
        """None (no candidate) or (matched signature, return type); raises PyRaise"""
        t = self.trie(op)
        bm = t.cls.methods["best_match"].bind(t)
        return self.si.call(bm, [list(sig)], {}, None, None)

    def all_matches(self, op: Op, sig):
        t = self.trie(op)
        root = t.attrs["root"]
        am = root.cls.methods["all_matches"].bind(root)
        return self.si.call(am, [list(sig), {}], {}, None, None)

    @property
    def steps(self):
        return self.ti.steps + self.si.steps


__all__ = ["SourceTypes", "PyRaise"]
