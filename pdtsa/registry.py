"""A7 - implementation registry: ``with X.impl_store.impl_manager as impl:`` blocks."""

from __future__ import annotations

import ast

from .catalogue import DT, Catalogue, Folder, TypeCtor
from .source import AnalysisError, Module, Repo, dotted, norm

BACKEND_FILES = [
    "backend.table_impl", "backend.polars", "backend.sql", "backend.sqlite", "backend.postgres",
    "backend.mssql", "backend.duckdb", "backend.ibm_db2", "backend.duckdb_polars",
]  # fmt: skip


class Registration:
    def __init__(self, store, module, func, opvar, sig, is_vararg, deco, guarded):
        self.store: str = store  # class name owning the impl_store
        self.module: Module = module
        self.func: ast.FunctionDef = func
        self.opvar: str = opvar
        self.sig: tuple[DT, ...] | None = sig  # None = default implementation
        self.is_vararg = is_vararg
        self.deco = deco
        self.guarded = guarded  # text of an enclosing `if` test inside the with-block, or None

    def __repr__(self):
        s = "default" if self.sig is None else ", ".join(map(repr, self.sig)) + (", ..." if self.is_vararg else "")
        return f"<{self.store}: ops.{self.opvar} [{s}] -> {self.func.name}@{self.module.rel}:{self.func.lineno}>"


def parse_registrations(repo: Repo, cat: Catalogue) -> list[Registration]:
    regs: list[Registration] = []
    for short in BACKEND_FILES:
        try:
            m = repo.mod(short)
        except AnalysisError:
            continue
        tenv = {k: v for k, v in cat.types.env.items() if isinstance(v, TypeCtor)}
        folder = Folder(m, tenv)
        for st in m.tree.body:
            if not isinstance(st, ast.With):
                continue
            for item in st.items:
                d = dotted(item.context_expr)
                if d is None or not d.endswith(".impl_store.impl_manager"):
                    continue
                store = d.split(".")[0]
                alias = item.optional_vars.id if isinstance(item.optional_vars, ast.Name) else None
                if alias is None:
                    raise AnalysisError(f"registry: impl manager without alias at {m.rel}:{st.lineno}")
                _collect(st.body, store, alias, m, folder, regs, None)
    return regs


def _collect(stmts, store, alias, m, folder, regs, guard):
    for st in stmts:
        if isinstance(st, ast.FunctionDef):
            for deco in st.decorator_list:
                if isinstance(deco, ast.Call) and isinstance(deco.func, ast.Name) and deco.func.id == alias:
                    if not deco.args:
                        raise AnalysisError(f"registry: @impl() without operator at {m.rel}:{deco.lineno}")
                    opd = dotted(deco.args[0])
                    if opd is None or not opd.startswith("ops."):
                        raise AnalysisError(f"registry: cannot resolve operator `{norm(deco.args[0])}` at {m.rel}:{deco.lineno}")
                    sigargs = deco.args[1:]
                    is_vararg = False
                    if len(sigargs) > 1 and isinstance(sigargs[-1], ast.Constant) and sigargs[-1].value is Ellipsis:
                        is_vararg = True
                        sigargs = sigargs[:-1]
                    sig = None
                    if sigargs:
                        sig = tuple(folder.ev(a, folder.env) for a in sigargs)
                        if not all(isinstance(t, DT) for t in sig):
                            raise AnalysisError(f"registry: non-dtype in signature at {m.rel}:{deco.lineno}")
                    regs.append(Registration(store, m, st, opd[4:], sig, is_vararg, deco, guard))
        elif isinstance(st, ast.If):
            _collect(st.body, store, alias, m, folder, regs, norm(st.test))
            _collect(st.orelse, store, alias, m, folder, regs, "not (" + norm(st.test) + ")")
        elif isinstance(st, (ast.Expr, ast.Pass)):
            continue
        else:
            raise AnalysisError(f"registry: unexpected statement in impl block at {m.rel}:{st.lineno}")
