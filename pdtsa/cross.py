"""Cross-filing of what the interpreted rules of sibling properties decide.

Some properties quantify over everything the others decide piecewise: C01 (both back ends return the same table for *every*
pipeline) and C19 (*no* accepted pipeline ends in an internal error of a SQL compiler, the statement text is reproducible).
A back-end compiler branch that an interpreted rule of C02-C08 / C16-C18 shows to deviate from its documented meaning - or to
raise an internal error on a well-formed input - violates those properties too.  This module runs the sibling rule modules
on the tree under analysis (same program model, same reference snapshot, no output) and hands back their findings, filtered
by a predicate of the calling property; known findings of the sibling stay with the sibling.
"""

from __future__ import annotations

import importlib
import re

from .report import SEMANTIC_RULES, Check, Finding, load_known
from .source import AnalysisError

_sub_cache: dict = {}

INTERNAL_ERROR = re.compile(
    r"raises (KeyError|TypeError|AttributeError|AssertionError|IndexError|NameError|RecursionError|UnboundLocalError|ZeroDivisionError)\b"
    r"|: (KeyError|TypeError|AttributeError|AssertionError|IndexError): |does not terminate|is not deterministic"
)


def sibling_check(chk, prop) -> Check | AnalysisError:
    """the rule module of `prop` evaluated on chk's tree (once per process and tree)"""
    k = (id(chk.repo), prop, chk.tier)
    if k not in _sub_cache:
        sub = Check(prop, chk.repo, chk.tier)
        try:
            importlib.import_module(f"pdtsa.rules.{prop.lower()}").run(sub)
            _sub_cache[k] = sub
        except AnalysisError as e:
            _sub_cache[k] = e
    return _sub_cache[k]


def cross_file(chk, rule, siblings, accept):
    """file under `rule` of chk every finding of the sibling checks for which accept(prop, finding) holds and which comes from a
    rule that decides by meaning; -> number of sibling obligations that held (for the evidence)"""
    known = {(k.get("property"), k.get("key")) for k in load_known() if k.get("status", "known") == "known"}
    pr = chk.per_rule.setdefault(rule, [0, 0])
    for prop in siblings:
        sub = sibling_check(chk, prop)
        if isinstance(sub, AnalysisError):
            chk.undecided.append(f"{rule}: the rules of {prop} could not be evaluated ({str(sub)[:120]})")
            continue
        sem = SEMANTIC_RULES.get(prop, set())
        n_held = sum(okc for rid, (n_, okc) in sub.per_rule.items() if rid in sem)
        pr[0] += n_held
        pr[1] += n_held
        chk.obligations += n_held
        chk.discharged += n_held
        chk.modules_used |= sub.modules_used
        chk.functions_analysed |= sub.functions_analysed
        filed, seen = 0, set()
        for f in sub.findings:
            if f.key in seen or (prop, f.key) in known:
                continue
            seen.add(f.key)
            if not (f.rule in sem or Check._is_interpreted(f.construct, f.message)):
                continue
            if not accept(prop, f):
                continue
            filed += 1
            pr[0] += 1
            chk.obligations += 1
            g = Finding(chk.prop, rule, f.file, None, f"[{prop} {f.rule}] {f.construct}", f"[{prop} {f.rule}] {f.message}", f.extra)
            g.line, g.function = f.line, f.function
            chk.findings.append(g)
        chk.extra_cov.setdefault(f"cross_filed:{rule}", {})[prop] = {"obligations of interpreted rules held": n_held, "findings filed here": filed}
        for u in sub.undecided[:2]:
            chk.undecided.append(f"{rule}/{prop}: {u[:140]}")


def in_backend(f, sql_only=False):
    p = f.file.replace("\\", "/")
    if "/backend/" not in p:
        return False
    return not (sql_only and p.endswith("/polars.py"))


# ---- which property cross-files what ---------------------------------------------------------------------------------------
# front-end facts that only the SQL side consumes (Polars ignores them): a wrong answer changes the SQL result alone
#   C04 R9   constness of a computed expression (a Const-typed key is left out of GROUP BY and inlined as a literal)
#   [missed-hazard]  a subquery guard that lets a verb into the running SELECT although SQL evaluates its clause earlier / later
XB_FRONT_RULES = {("C04", "R9")}
XB_FRONT_TAGS = ("[missed-hazard]",)
# the functions of backend/sql.py that assemble the SELECT statement from the verbs (as opposed to operator implementations)
SQL_ASSEMBLY = ("SqlImpl.compile_ast", "SqlImpl.compile_query", "SqlImpl.build_select", "SqlImpl.build_query", "SqlImpl.compile_ordered_aggregation",
                "dedup_order_by", "create_aliases", "SqlImpl.compile_order", "SqlImpl.export")  # fmt: skip
# rules that decide names / order of the columns of the frame a back end exports
XN_RULES = {("C01", "R5"), ("C01", "R3"), ("C02", "R8"), ("C06", "R8v"), ("C07", "R1p"), ("C07", "R1s"), ("C16", "R8")}


def _xb_accept(prop, f):
    return in_backend(f) or (prop, f.rule) in XB_FRONT_RULES or any(t_ in f.construct or t_ in (f.message or "")[:40] for t_ in XB_FRONT_TAGS)


def _xs_accept(prop, f):
    return f.file.replace("\\", "/").endswith("/backend/sql.py") and (f.function in SQL_ASSEMBLY or f.function.split(".<")[0] in SQL_ASSEMBLY)


CROSS = {
    # property: (rule id, rule text, siblings, accept)
    "C01": ("XB", "back-end side of the sibling properties C02-C08, C17, C18 (plus the front-end facts only the SQL side consumes: constness of "
            "computed keys, missed subquery hazards): every obligation their interpreted rules decide about a compiler of one back end (join / "
            "union / summarize / window / case / cast / literal / string-match branches on stubs and terms) holds - a back end that deviates from "
            "the documented meaning deviates from the other back end",
            ("C02", "C03", "C04", "C05", "C06", "C07", "C08", "C17", "C18"), _xb_accept),
    "C08": ("XS", "statement assembly of the SQL compiler as decided by the interpreted rules of C01, C02, C04-C07, C16 (clause placement of every "
            "verb sequence, limit composition, filter after summarize, grouping across a subquery marker, subquery naming, join / union "
            "branches): an accepted pipeline whose SELECT is assembled wrongly does not equal the Polars result",
            ("C01", "C02", "C04", "C05", "C06", "C07", "C16"), _xs_accept),
    "C11": ("XN", "names and order of the columns a back end exports, as decided by the interpreted rules of C01 (export projection, column "
            "sequence of the two compilers), C02 (SQL rename labels), C06 (Polars join frame names), C07 (union name map / positions), C16 "
            "(subquery naming): the reported names must be those of the exported frame on every back end",
            ("C01", "C02", "C06", "C07", "C16"), lambda prop, f: in_backend(f) and (prop, f.rule) in XN_RULES),
    "C19": ("XE", "interpreted scenarios of the sibling properties C02-C08, C16-C18 on the SQL compilers: no internal error (KeyError / TypeError "
            "/ AttributeError / AssertionError ..), termination, reproducible statement text",
            ("C02", "C03", "C04", "C05", "C06", "C07", "C08", "C16", "C17", "C18"),
            lambda prop, f: in_backend(f, sql_only=True) and INTERNAL_ERROR.search(f.message or "") is not None),
}


def apply(chk):
    """called by the driver after the property's own rules (never for a sibling evaluation: no recursion)"""
    spec = CROSS.get(chk.prop)
    if spec is None:
        return
    rule, text, siblings, accept = spec
    chk.rule(rule, text)
    cross_file(chk, rule, siblings, accept)
