"""Linear-interval analysis of the Polars emulation of `descending` / `nulls_last` in window
orderings (``merge_desc_nulls_last``).

``over(.., order_by=..)`` cannot take descending / nulls_last flags, so the back end maps
each ordering key to a number: its dense rank (range [1, L], L = number of rows),
negated for descending keys, with nulls replaced by a sentinel.  The emulation is correct
iff, for every flag combination, (a) the numeric key is increasing in the original key
exactly when the order is ascending and (b) the sentinel for nulls lies strictly above
(nulls last) / below (nulls first) the whole range of non-null keys *for every L >= 1*.
Values are intervals whose bounds are linear in L; the loop body is interpreted once per
valuation of (descending, nulls_last).  Unsupported constructs make the rule undecided
(a note, never a violation).
"""

from __future__ import annotations

import ast

from .source import dotted, norm


class Undecided(Exception):
    pass


class Lin:
    """a*L + b"""

    def __init__(self, a, b):
        self.a, self.b = a, b

    def __neg__(self):
        return Lin(-self.a, -self.b)

    def __add__(self, o):
        o = o if isinstance(o, Lin) else Lin(0, o)
        return Lin(self.a + o.a, self.b + o.b)

    def __sub__(self, o):
        o = o if isinstance(o, Lin) else Lin(0, o)
        return Lin(self.a - o.a, self.b - o.b)

    def positive_for_all_L(self):
        """a*L + b > 0 for every integer L >= 1"""
        return self.a >= 0 and self.a + self.b > 0

    def __repr__(self):
        if self.a == 0:
            return str(self.b)
        s = "L" if self.a == 1 else "-L" if self.a == -1 else f"{self.a}L"
        return s if self.b == 0 else f"{s}{'+' if self.b > 0 else ''}{self.b}"


class Key:
    """numeric ordering key: non-null values in [lo, hi], orientation +1 increasing / -1 decreasing in the
    original key, `sentinel` the value substituted for nulls (None: nulls stay null)"""

    def __init__(self, lo, hi, orient, sentinel=None, raw=False):
        self.lo, self.hi, self.orient, self.sentinel, self.raw = lo, hi, orient, sentinel, raw


def _lin(e, env):
    """linear expression over pl.len()"""
    if isinstance(e, ast.Constant) and isinstance(e.value, int):
        return Lin(0, e.value)
    if isinstance(e, ast.UnaryOp) and isinstance(e.op, ast.USub):
        return -_lin(e.operand, env)
    if isinstance(e, ast.BinOp) and isinstance(e.op, (ast.Add, ast.Sub)):
        a, b = _lin(e.left, env), _lin(e.right, env)
        return a + b if isinstance(e.op, ast.Add) else a - b
    if isinstance(e, ast.Call):
        if isinstance(e.func, ast.Attribute) and e.func.attr == "cast":
            return _lin(e.func.value, env)
        if (dotted(e.func) or "").endswith(".len") and not e.args:
            return Lin(1, 0)
    raise Undecided(f"sentinel expression `{norm(e)[:50]}`")


def _ev(e, env):
    if isinstance(e, ast.Name):
        if e.id in env:
            return env[e.id]
        raise Undecided(f"name {e.id}")
    if isinstance(e, ast.UnaryOp) and isinstance(e.op, ast.USub):
        v = _ev(e.operand, env)
        if isinstance(v, Key) and not v.raw:
            return Key(-v.hi, -v.lo, -v.orient, None if v.sentinel is None else -v.sentinel)
        raise Undecided("negation of a non-numeric key")
    if isinstance(e, ast.Call) and isinstance(e.func, ast.Attribute):
        recv = e.func.value
        m = e.func.attr
        if m == "cast":
            return _ev(recv, env)
        if m == "rank":
            v = _ev(recv, env)
            if not (isinstance(v, Key) and v.raw):
                raise Undecided("rank of a derived key")
            method = e.args[0].value if e.args and isinstance(e.args[0], ast.Constant) else None
            if method not in ("dense", "min", "max", "ordinal"):
                raise Undecided("rank method")
            return Key(Lin(0, 1), Lin(1, 0), v.orient)
        if m == "fill_null" and e.args:
            v = _ev(recv, env)
            if not isinstance(v, Key) or v.raw:
                raise Undecided("fill_null on a raw key")
            return Key(v.lo, v.hi, v.orient, _lin(e.args[0], env))
    raise Undecided(f"expression `{norm(e)[:50]}`")


def _truth(t, env):
    if isinstance(t, ast.BoolOp):
        vals = [_truth(v, env) for v in t.values]
        return all(vals) if isinstance(t.op, ast.And) else any(vals)
    if isinstance(t, ast.UnaryOp) and isinstance(t.op, ast.Not):
        return not _truth(t.operand, env)
    if isinstance(t, ast.Name):
        return bool(env[t.id])
    if isinstance(t, ast.Compare) and len(t.ops) == 1 and isinstance(t.left, ast.Name) and isinstance(t.comparators[0], ast.Constant):
        a, b = env[t.left.id], t.comparators[0].value
        op = t.ops[0]
        if isinstance(op, ast.Is):
            return a is b
        if isinstance(op, ast.IsNot):
            return a is not b
        if isinstance(op, ast.Eq):
            return a == b
        if isinstance(op, ast.NotEq):
            return a != b
    raise Undecided(f"test `{norm(t)[:50]}`")


def _run(stmts, env, out, outname):
    for st in stmts:
        if isinstance(st, ast.Expr) and isinstance(st.value, ast.Constant):
            continue
        if isinstance(st, ast.If):
            _run(st.body if _truth(st.test, env) else st.orelse, env, out, outname)
        elif isinstance(st, ast.Assign) and len(st.targets) == 1 and isinstance(st.targets[0], ast.Name):
            env[st.targets[0].id] = _ev(st.value, env)
        elif isinstance(st, ast.Expr) and isinstance(st.value, ast.Call) and isinstance(st.value.func, ast.Attribute) and st.value.func.attr == "append" and norm(st.value.func.value) == outname:
            out.append(_ev(st.value.args[0], env))
        else:
            raise Undecided(f"statement `{norm(st)[:50]}`")


def analyse_merge(func: ast.FunctionDef):
    """[(desc, nulls_last, key, problems)]"""
    loop = next((n for n in func.body if isinstance(n, ast.For)), None)
    if loop is None or not (isinstance(loop.iter, ast.Call) and dotted(loop.iter.func) == "zip") or not isinstance(loop.target, ast.Tuple) or len(loop.target.elts) != 3:
        raise Undecided("loop shape")
    params = [a.arg for a in func.args.args]
    zipped = [norm(a) for a in loop.iter.args[:3]]
    if zipped != params[:3]:
        raise Undecided("zip order")
    kname, dname, nname = (norm(e) for e in loop.target.elts)
    outname = None
    for st in func.body:
        if isinstance(st, ast.Assign) and isinstance(st.value, ast.List) and not st.value.elts:
            outname = norm(st.targets[0])
    if outname is None:
        raise Undecided("result list")
    res = []
    for desc in (False, True):
        for nl in (None, True, False):
            env = {kname: Key(None, None, 1, raw=True), dname: desc, nname: nl}
            out = []
            _run(loop.body, env, out, outname)
            if len(out) != 1:
                raise Undecided("not exactly one key per ordering term")
            k = out[0]
            problems = []
            want_orient = -1 if desc else 1
            if k.orient != want_orient:
                problems.append(f"key is {'increasing' if k.orient > 0 else 'decreasing'} in the column but descending={desc}")
            if nl is not None:
                if k.raw:
                    problems.append("null placement requested but the raw column is passed on (over() ignores nulls_last)")
                elif k.sentinel is None:
                    problems.append("nulls are not replaced by a sentinel")
                elif nl is True and not (k.sentinel - k.hi).positive_for_all_L():
                    problems.append(f"nulls_last sentinel {k.sentinel} is not above the key range [{k.lo}, {k.hi}] for every row count L")
                elif nl is False and not (k.lo - k.sentinel).positive_for_all_L():
                    problems.append(f"nulls_first sentinel {k.sentinel} is not below the key range [{k.lo}, {k.hi}] for every row count L")
            res.append((desc, nl, k, problems))
    return res
