#!/usr/bin/env python3
"""regenerates MANIFEST.json from the table below (kept in one place so it stays valid)"""
import json
from pathlib import Path

HERE = Path(__file__).resolve().parent
BASE_CMD = (
    "cd /repo && /venv/bin/python -m pytest -ra -q -p no:cacheprovider --timeout=900 "
    "--continue-on-collection-errors"
)

CHECKS = json.loads((HERE / "manifest_checks.json").read_text())
NA = json.loads((HERE / "manifest_na.json").read_text())

checks = []
for c in CHECKS:
    pid = c["id"]
    checks.append(
        {
            "property_id": pid,
            "quick_cmd": f"./check {pid} --tier quick",
            "thorough_cmd": f"./check {pid} --tier thorough",
            "evidence_file": f"/verif/evidence/{pid}.json",
            "replay_cmd_template": f"./check {pid} --replay {{path}}",
            "engine": "pdtsa",
            "level_claimed": {
                "category": "other",
                "text": c["text"],
                "design_ref": c.get("design_ref", f"DESIGN.md section 5/{pid}"),
            },
            "level_note": c["note"],
            "technique": c["technique"],
        }
    )

manifest = {
    "version": 1,
    "setup_cmd": "true",
    "hooks": {
        "guard": "PYDIVERSE_TRANSFORM_VERIF",
        "enable": "no hooks: the checkers read the source tree only and need no instrumentation",
        "baseline_off_cmd": BASE_CMD,
        "source_commits": [],
        "add_only": True,
    },
    "engines": [
        {
            "name": "pdtsa",
            "path": "/verif/pdtsa",
            "serves_properties": [c["id"] for c in CHECKS],
            "kind_free_text": "repository-specific static analysis over the stdlib ast: program model, "
            "isinstance-dispatch slicer, declaration folder, ownership/effect analysis, sequence-term abstraction, "
            "guard tables, registry and escaping rules",
        }
    ],
    "checks": checks,
    "notes": "All checks are static: they parse /repo/src on every run (stdlib ast under /venv/bin/python) and "
    "never import or execute pydiverse.transform. Exit 0 held / 1 VIOLATION / 2 ANALYSIS-ERROR.",
    "not_applicable": NA,
}
(HERE / "MANIFEST.json").write_text(json.dumps(manifest, indent=1) + "\n")
print("wrote MANIFEST.json with", len(checks), "checks,", len(NA), "n/a")
