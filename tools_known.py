#!/usr/bin/env python3
"""maintenance helper (never run by a check): append entries to known_findings.json

usage: tools_known.py known <property> <D-id> <replay.json> "<what fails>"
       tools_known.py fixed <property> <D-id> <commit> "<key or ->" "<what failed>"
"""
import json
import sys
from pathlib import Path

F = Path(__file__).resolve().parent / "known_findings.json"
data = json.loads(F.read_text()) if F.exists() else {"findings": []}
mode = sys.argv[1]
if mode == "known":
    _, _, prop, did, replay, what = sys.argv
    r = json.load(open(replay))
    data["findings"].append({"property": prop, "status": "known", "id": did, "rule": r["rule"], "key": r["key"],
                             "where": f"{r['file']} {r['function']}", "what": what})
else:
    _, _, prop, did, commit, key, what = sys.argv
    data["findings"].append({"property": prop, "status": "fixed", "id": did, "commit": commit, "key": key,
                             "what": what, "line": f"fixed: property={prop} {commit} {what}"})
F.write_text(json.dumps(data, indent=1) + "\n")
