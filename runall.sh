#!/bin/sh
# run every registered check (quick tier) against /repo; prints one line per property. maintenance helper.
cd "$(dirname "$0")"
mkdir -p /tmp/pdtsa-out
for p in $(python3 -c "import json;print(' '.join(c['property_id'] for c in json.load(open('MANIFEST.json'))['checks']))"); do
  ( ./check $p "$@" > /tmp/pdtsa-out/$p.txt 2>&1; echo "$p exit=$? viol=$(grep -c '^VIOLATION' /tmp/pdtsa-out/$p.txt) known=$(grep -c '^KNOWN' /tmp/pdtsa-out/$p.txt)" ) &
done 2>/dev/null
wait
