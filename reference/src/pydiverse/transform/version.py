# Copyright (c) QuantCo and pydiverse contributors 2025-2025
# SPDX-License-Identifier: BSD-3-Clause

from importlib.metadata import PackageNotFoundError, version

try:
    __version__ = version(__package__ or __name__)
except PackageNotFoundError:
    # Running from a Git checkout or an editable install
    __version__ = "0.0.0+dev"
