# Copyright (c) QuantCo and pydiverse contributors 2025-2025
# SPDX-License-Identifier: BSD-3-Clause

import itertools
from collections.abc import Callable, Iterable
from uuid import UUID

from pydiverse.transform._internal.util.warnings import warn


class AstNode:
    __slots__ = ["name"]

    name: str

    def clone(self) -> "AstNode":
        return self._clone()[0]

    def _clone(
        self,
    ) -> tuple["AstNode", dict["AstNode", "AstNode"], dict[UUID, UUID]]: ...

    def iter_subtree_postorder(self) -> Iterable["AstNode"]: ...

    def iter_subtree_preorder(self) -> Iterable["AstNode"]: ...

    def __repr__(self) -> str:
        return self.short_name()

    # Formatted, almost source code like representation of the AST.
    def ast_repr(self, verb_depth: int = -1, expr_depth: int = -1) -> str:
        from pydiverse.transform._internal.backend.table_impl import TableImpl
        from pydiverse.transform._internal.tree.col_expr import Col
        from pydiverse.transform._internal.tree.verbs import Alias, Verb

        def next_nd(root: AstNode, cond: Callable[["AstNode"], bool]):
            for nd in root.iter_subtree_preorder():
                if cond(nd):
                    return nd

        source_tbls = set(nd for nd in self.iter_subtree_preorder() if isinstance(nd, TableImpl | Alias))
        # Add required ASTs from aligned columns (they need not be in the subtree of
        # `self`)
        source_tbls |= set(
            next_nd(col._ast, lambda x: isinstance(x, Alias | TableImpl))
            for col in itertools.chain(
                *(nd.iter_col_nodes() for nd in self.iter_subtree_preorder() if isinstance(nd, Verb))
            )
            if isinstance(col, Col)
        )

        table_display_name_map: dict[TableImpl, str] = dict()
        used = set()
        for nd in source_tbls:
            display_name = nd.name or "tbl"
            # try to achieve valid python identifier names
            display_name = display_name.replace(" ", "_").replace(".", "_").replace("-", "_")

            if display_name not in used:
                used.add(display_name)
                table_display_name_map[nd] = display_name
            else:
                cnt = 1
                while f"{display_name}_{cnt}" in used:
                    cnt += 1
                table_display_name_map[nd] = f"{display_name}_{cnt}"
                used.add(f"{display_name}_{cnt}")

        # Find the last source table / alias for every node in the AST and use the
        # corresponding name.
        for nd in self.iter_subtree_postorder():
            table_display_name_map[nd] = table_display_name_map[next_nd(nd, lambda x: x in table_display_name_map)]

            if isinstance(nd, Verb):
                for col in nd.iter_col_nodes():
                    if isinstance(col, Col):
                        table_display_name_map[col._ast] = table_display_name_map[
                            next_nd(col._ast, lambda x: x in table_display_name_map)
                        ]

        unformatted = "\n".join(
            f"{display_name} = {tbl._table_def_repr()}"
            for tbl, display_name in table_display_name_map.items()
            if isinstance(tbl, TableImpl)
        ) + ("\n\n(" + self._unformatted_ast_repr(verb_depth, expr_depth, table_display_name_map) + ")")
        try:
            import black

            formatted = black.format_str(unformatted, mode=black.Mode(line_length=120))
            return formatted
        except Exception:
            warn("Could not format AST representation with `black`.")
            return unformatted

    def short_name(self) -> str:
        raise NotImplementedError()

    # Recursive, builds up the verb chain.
    def _unformatted_ast_repr(self, verb_depth: int, expr_depth: int, display_name_map):
        raise NotImplementedError()

    # Just the verb call of a single verb, without `>>`.
    def _ast_node_repr(self, expr_depth: int, display_name_map):
        raise NotImplementedError()
