# Copyright (c) QuantCo and pydiverse contributors 2025-2025
# SPDX-License-Identifier: BSD-3-Clause

import sqlalchemy as sqa
from sqlalchemy import Cast

from pydiverse.common import Decimal, Float
from pydiverse.transform._internal.backend.sql import SqlImpl
from pydiverse.transform._internal.ops import ops


class IbmDb2Impl(SqlImpl):
    backend_name = "ibm_db2"

    @classmethod
    def default_collation(cls) -> str | None:
        return None  # collation cannot be changed within expressions in DB2

    @classmethod
    def cast_compiled(cls, cast: Cast, compiled_expr: sqa.ColumnElement):
        _type = cls.sqa_type(cast.target_type)
        if isinstance(_type, sqa.String) and _type.length is None:
            # For DB2, we need to specify a length for string types.
            _type = sqa.String(length=32_672)
        # For SQLite, we ignore the `strict` parameter to `cast`.
        return sqa.cast(compiled_expr, _type)

    @classmethod
    def sqa_type(cls, pdt_type):
        if isinstance(pdt_type, Decimal):
            return sqa.DECIMAL(15, 6)
        return super().sqa_type(pdt_type)

    @classmethod
    def dialect_order_append_rand(cls):
        # DB2 hates non-deterministic behavior and forbids rand in ORDER BY clauses.
        return False


with IbmDb2Impl.impl_store.impl_manager as impl:

    @impl(ops.horizontal_min)
    def _horizontal_min(*x):
        if len(x) == 1:
            return sqa.func.LEAST(x[0], x[0])  # DB2 does not support LEAST with a single argument
        else:
            # the generated query will look extremely ugly but LEAST should be non-NULL
            # if any of the arguments is non-NULL
            any_non_null = sqa.func.COALESCE(*x)
            return sqa.func.LEAST(*[sqa.func.COALESCE(element, any_non_null) for element in x])

    @impl(ops.horizontal_max)
    def _horizontal_max(*x):
        if len(x) == 1:
            return sqa.func.GREATEST(x[0], x[0])  # DB2 does not support LEAST with a single argument
        else:
            # the generated query will look extremely ugly but LEAST should be non-NULL
            # if any of the arguments is non-NULL
            any_non_null = sqa.func.COALESCE(*x)
            return sqa.func.GREATEST(*[sqa.func.COALESCE(element, any_non_null) for element in x])

    @impl(ops.dt_second)
    def _dt_second(x):
        return sqa.func.cast(sqa.extract("second", x), type_=sqa.Integer())

    @impl(ops.dt_millisecond)
    def _dt_millisecond(x):
        return sqa.func.cast(
            (sqa.extract("second", x) * sqa.literal_column("1000.")),
            type_=sqa.Integer(),
        ) % sqa.literal_column("1000")

    @impl(ops.dt_microsecond)
    def _dt_microsecond(x):
        return sqa.func.cast(
            (sqa.extract("second", x) * sqa.literal_column("1000000.")),
            type_=sqa.Integer(),
        ) % sqa.literal_column("1000000")

    @impl(ops.dt_day_of_week)
    def _day_of_week(x):
        return (sqa.extract("dow", x) + 5) % sqa.literal_column("7") + 1

    @impl(ops.cbrt)
    def _cbrt(x):
        pow_impl = IbmDb2Impl.get_impl(ops.pow, (Float(), Float()))
        return sqa.func.sign(x) * pow_impl(sqa.func.abs(x), sqa.literal(1 / 3, type_=sqa.Double))

    @impl(ops.rand)
    def _rand():
        return sqa.func.RANDOM(1729)

    @impl(ops.str_contains)
    def _str_contains(x, pattern, allow_regex, true_if_regex_unsupported):
        if not allow_regex:
            return x.contains(pattern, autoescape=True)
        if pattern == "":
            return sqa.case(
                (x.is_(sqa.null()), sqa.null()),
                else_=sqa.literal(True, literal_execute=True),
            )
        return sqa.func.REGEXP_LIKE(x, pattern).cast(sqa.Boolean())
