# Copyright (c) QuantCo and pydiverse contributors 2025-2025
# SPDX-License-Identifier: BSD-3-Clause

from typing import Any
from uuid import UUID

import duckdb
import duckdb_engine
import polars as pl
import sqlalchemy as sqa

from pydiverse.common import Dtype
from pydiverse.transform._internal.backend.duckdb import DuckDbImpl
from pydiverse.transform._internal.backend.table_impl import TableImpl
from pydiverse.transform._internal.backend.targets import Polars, Target
from pydiverse.transform._internal.tree.ast import AstNode


# TODO: we should move the engine of SqlImpl in the subclasses and let this thing
# inherit from SqlImpl in order to make the usage of SqlImpl.compile_ast more clean.
# Currently it works only since this class also has a table object, but it should be
# enforced by inheritance.
class DuckDbPolarsImpl(TableImpl):
    backend_name = "duckdb_polars"

    def __init__(self, name: str | None, df: pl.DataFrame | pl.LazyFrame):
        self.df = df if isinstance(df, pl.LazyFrame) else df.lazy()

        super().__init__(
            name,
            {name: Dtype.from_polars(dtype) for name, dtype in df.collect_schema().items()},
        )

        self.table = sqa.Table(
            name or "<polars dataframe>",
            sqa.MetaData(),
            *(sqa.Column(col.name, DuckDbImpl.sqa_type(col.dtype())) for col in self.cols.values()),
        )

    def _table_def_repr(self) -> str:
        return f"Table(df, DuckDb(), name='{self.name}')"

    @staticmethod
    def build_query(nd: AstNode) -> str | None:
        return DuckDbImpl.build_query(nd, dialect=duckdb_engine.Dialect())

    @staticmethod
    def export(
        nd: AstNode,
        target: Target,
        *,
        schema_overrides: dict[UUID, Any],  # TODO: use this
    ) -> pl.DataFrame:
        if isinstance(target, Polars):
            sel = DuckDbImpl.build_select(nd)
            query_str = str(
                sel.compile(
                    dialect=duckdb_engine.Dialect(),
                    compile_kwargs={"literal_binds": True},
                )
            )

            # tell duckdb which table names in the SQL query correspond to which
            # data frames
            for desc in nd.iter_subtree_postorder():
                if isinstance(desc, DuckDbPolarsImpl):
                    duckdb.register(desc.table.name, desc.df)

            return duckdb.sql(query_str).pl()

        raise AssertionError

    def _clone(self) -> tuple[AstNode, dict[AstNode, AstNode], dict[UUID, UUID]]:
        cloned = DuckDbPolarsImpl(self.name, self.df)
        return (
            cloned,
            {self: cloned},
            {self.cols[name]._uuid: cloned.cols[name]._uuid for name in self.cols.keys()},
        )
