# Copyright (c) QuantCo and pydiverse contributors 2025-2025
# SPDX-License-Identifier: BSD-3-Clause

from pydiverse.transform._internal.util.warnings import warn

try:
    from sqlalchemy.ext.compiler import compiles
    from sqlalchemy.sql import Join

    # 1) DB2-specific compilation for FULL OUTER JOIN
    @compiles(Join, "ibm_db_sa")
    def _compile_join_db2(join, compiler, **kwargs):
        # If this is a FULL join, force FULL OUTER JOIN keyword
        kwargs = kwargs.copy()
        kwargs["asfrom"] = True
        if getattr(join, "full", False):
            return "".join(
                (
                    compiler.process(join.left, **kwargs),
                    " FULL OUTER JOIN ",
                    compiler.process(join.right, **kwargs),
                    " ON ",
                    compiler.process(join.onclause, **kwargs),
                )
            )
        # Otherwise, fall back to default behavior for LEFT/INNER
        return compiler.visit_join(join, **kwargs)
except ImportError:
    warn("Failed to patch SQLAlchemy FULL OUTER JOIN for DB2. ")
