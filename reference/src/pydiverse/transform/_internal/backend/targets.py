# Copyright (c) QuantCo and pydiverse contributors 2025-2025
# SPDX-License-Identifier: BSD-3-Clause

# This module defines the config classes provided to the user to configure
# the backend on import / export.


import sqlalchemy as sqa


class Target: ...


class Polars(Target):
    def __init__(self, *, lazy: bool = False) -> None:
        self.lazy = lazy


class Pandas(Target): ...


class DuckDb(Target): ...


class SqlAlchemy(Target):
    def __init__(self, engine: sqa.Engine, *, schema: str | None = None):
        self.engine = engine
        self.schema = schema


class Scalar(Target): ...


class Dict(Target): ...


class DictOfLists(Target): ...


class ListOfDicts(Target): ...
