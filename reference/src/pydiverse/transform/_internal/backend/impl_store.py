# Copyright (c) QuantCo and pydiverse contributors 2025-2025
# SPDX-License-Identifier: BSD-3-Clause

import dataclasses
import inspect
from collections.abc import Callable, Sequence

from pydiverse.transform._internal.ops.op import Operator
from pydiverse.transform._internal.ops.signature import SignatureTrie
from pydiverse.transform._internal.tree.types import Dtype


class ImplStore:
    __slots__ = ("impl_trie", "default_impl", "impl_manager")

    impl_trie: dict[Operator, SignatureTrie]
    default_impl: dict[Operator, Callable | None]
    impl_manager: "ImplContextManager"

    def __init__(self) -> None:
        self.impl_trie = dict()
        self.default_impl = dict()
        self.impl_manager = ImplContextManager(self)

    def add_impl(
        self,
        op: Operator,
        sig: Sequence[Dtype] | None,
        is_vararg: bool,
        f: Callable,
    ) -> None:
        if sig is None:
            assert op not in self.default_impl
            self.default_impl[op] = f
        else:
            if op not in self.impl_trie:
                self.impl_trie[op] = SignatureTrie()
            self.impl_trie[op].insert(sig, f, is_vararg)

    def get_impl(self, op: Operator, sig: Sequence[Dtype]) -> Callable | None:
        best_match = None

        if (trie := self.impl_trie.get(op)) is not None:
            trie_match = trie.best_match(sig)
            if trie_match is not None:
                best_match = trie_match[1]
        if best_match is None:
            best_match = self.default_impl.get(op)

        if best_match is None:
            return None

        # filter out only those kwargs that the impl wants
        impl_kwargs = {
            name
            for name, param in inspect.signature(best_match).parameters.items()
            if param.kind == inspect.Parameter.KEYWORD_ONLY
        }

        return lambda *args, **kwargs: best_match(
            *args,
            **{kwarg: val for kwarg, val in kwargs.items() if kwarg in impl_kwargs},
            **({"_sig": sig} if "_sig" in impl_kwargs else {}),
        )


@dataclasses.dataclass(slots=True)
class ImplContextManager:
    impl_store: ImplStore

    def __enter__(self):
        return self

    def __exit__(self, *args): ...

    def __call__(self, op: Operator, *sig: Dtype) -> Callable:
        assert isinstance(op, Operator)

        is_vararg = len(sig) > 1 and sig[-1] is Ellipsis
        if is_vararg:
            sig = sig[:-1]

        if not all(isinstance(dtype, Dtype) for dtype in sig):
            raise TypeError(
                "The argument types must have type `Dtype`.\n"
                "hint: Maybe you forgot the parentheses and passed in the class "
                "instead of an instance? (E.g. it must be `Int()` instead of `Int`.)"
            )

        def f(g):
            self.impl_store.add_impl(op, None if len(sig) == 0 else sig, is_vararg, g)
            return g

        return f
