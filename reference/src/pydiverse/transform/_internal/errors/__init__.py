# Copyright (c) QuantCo and pydiverse contributors 2025-2025
# SPDX-License-Identifier: BSD-3-Clause

import typing
from typing import Any


class ErrorWithSource(Exception):
    def __init__(self, message, *, source=None):
        super().__init__(message)
        self.source = source


class DataTypeError(ErrorWithSource):
    """
    Invalid usage of data types. This error type is reserved for errors related to
    the pydiverse-internal types. For errors related to python types, we use the
    standard `TypeError`.
    """


class FunctionTypeError(ErrorWithSource):
    """
    Exception related to function type
    """


class NotSupportedError(Exception):
    """
    Signals operations that are not supported by a backend.
    """


class SubqueryError(Exception):
    """
    Raised for subqueries that would be required on SQL but were not marked explicitly
    by an `>> alias()`.
    """


class ColumnNotFoundError(Exception):
    """
    Raised if a column does not exist in the current table.
    """


class NonStandardWarning(UserWarning):
    """
    Category for when a specific backend deviates from
    the expected standard behaviour.
    """


# Our error message format: The first line is in lowercase letters, without a dot at
# the end. More detail is given in the following lines in normal english sentences.
# To give advice to to the user, we write `hint: ...`.


def check_arg_type(
    expected_type: type,
    fn: str,
    param_name: str,
    arg: Any,
):
    if not isinstance(arg, expected_type):
        type_args = typing.get_args(expected_type)
        expected_type_str = expected_type.__name__ if not type_args else " | ".join(t.__name__ for t in type_args)
        raise TypeError(
            f"argument for parameter `{param_name}` of `{fn}` must have type "
            f"`{expected_type_str}`, found `{type(arg).__name__}` instead"
        )


def check_vararg_type(expected_type: type, fn: str, *args: Any):
    for arg in args:
        if not isinstance(arg, expected_type):
            type_args = typing.get_args(expected_type)
            expected_type_str = expected_type.__name__ if not type_args else " | ".join(t.__name__ for t in type_args)
            raise TypeError(
                f"varargs to `{fn}` must have type `{expected_type_str}`, found `{type(arg).__name__}` instead"
            )


def check_literal_type(allowed_vals: list[Any], fn: str, param_name: str, arg: Any):
    if arg not in allowed_vals:
        raise TypeError(
            f"argument `{arg}` not allowed for parameter `{param_name}` of `{fn}`, "
            "must be one of " + ", ".join(repr(val) for val in allowed_vals)
        )
