# Copyright (c) QuantCo and pydiverse contributors 2025-2025
# SPDX-License-Identifier: BSD-3-Clause

from .reraise import reraise

__all__ = [
    "reraise",
]
