# Copyright (c) QuantCo and pydiverse contributors 2025-2025
# SPDX-License-Identifier: BSD-3-Clause

import inspect
import sys
import warnings as py_warnings

from pydiverse.transform._internal.errors import NonStandardWarning


def warn(
    message: str,
    category: type[Warning] = None,
    stacklevel=1,
):
    py_warnings.warn(message, category, stacklevel=stacklevel + 1)
    return

    stack = inspect.stack(context=0)
    frame = stack[stacklevel]

    # for f in stack[stacklevel:]:
    #     if frame_self := f.frame.f_locals.get("self"):
    #         if isinstance(frame_self, AbstractTableImpl.ExpressionCompiler):
    #             table_impl = frame_self.backend
    #             break

    frame_globals = frame.frame.f_globals
    filename = frame.filename
    lineno = frame.lineno

    del frame  # Prevent reference cycle
    del stack  # Prevent reference cycle

    registry = frame_globals.setdefault("__pydiverse_transform_warnings_registry__", {})
    key = (message, category, lineno)

    if registry.get(key):
        # Not a new warning
        return
    registry[key] = 1

    print(f"{filename}:{lineno}: {category.__name__}: {message}", file=sys.stderr)


def warn_non_standard(
    message: str,
    stacklevel=1,
):
    warn(
        message,
        category=NonStandardWarning,
        stacklevel=stacklevel + 1,
    )
