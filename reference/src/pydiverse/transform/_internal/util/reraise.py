# Copyright (c) QuantCo and pydiverse contributors 2025-2025
# SPDX-License-Identifier: BSD-3-Clause

from typing import NoReturn


def reraise(
    e: Exception,
    prefix: str | None = None,
    suffix: str | None = None,
) -> NoReturn:
    class ReraisedException(type(e)):
        def __init__(self, *args):
            Exception.__init__(self, *args)

        def __getattr__(self, item):
            return getattr(e, item)

        __repr__ = Exception.__repr__
        __str__ = Exception.__str__

    ReraisedException.__name__ = type(e).__name__
    ReraisedException.__qualname__ = type(e).__qualname__
    ReraisedException.__module__ = type(e).__module__

    suffix = "" if suffix is None else suffix
    prefix = "" if prefix is None else prefix

    if suffix != "":
        suffix = "\n" + suffix

    rre = ReraisedException(f"{prefix}{e}{suffix}")
    raise rre.with_traceback(e.__traceback__) from e.__cause__
