# Copyright (c) QuantCo and pydiverse contributors 2025-2025
# SPDX-License-Identifier: BSD-3-Clause

from pydiverse.transform._internal.tree.col_expr import ColName


class MC(type):
    def __getattr__(cls, name: str) -> ColName:
        return ColName(name)

    def __getitem__(cls, name: str) -> ColName:
        return ColName(name)


class C(metaclass=MC):
    """As an alternative to referencing a column via `<table>.<column name>`, you can
    use `C.<column name>` or `C[<column name>]`. Using :class:`C` is necessary if the
    column to be referenced does not live in a table stored as a python variable."""

    pass
