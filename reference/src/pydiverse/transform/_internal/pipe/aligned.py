# Copyright (c) QuantCo and pydiverse contributors 2025-2025
# SPDX-License-Identifier: BSD-3-Clause

import inspect
from functools import wraps

import pandas as pd
import polars as pl

from pydiverse.transform._internal import errors
from pydiverse.transform._internal.pipe.table import Table
from pydiverse.transform._internal.tree.col_expr import Col, ColExpr, EvalAligned


def aligned(fn=None, *, with_: str | None = None):
    """
    Decorator that automatically applies :doc:`pydiverse.transform.eval_aligned` to the
    return value of a function.

    :param with_:
        The table or column to align with.

    Examples
    --------
    >>> @aligned(with_="col")
    ... def reverse_col(col: pdt.Col) -> pdt.ColExpr:
    ...     return col.export(Polars).reverse()
    ...
    >>> t = pdt.Table(
    ...     {
    ...         "a": [1, 2, 3, 4],
    ...         "b": [2, 5, 16, 3],
    ...     },
    ...     name="t",
    ... )
    >>> t >> mutate(r=reverse_col(t.a)) >> show()
    Table `t` (backend: polars)
    shape: (4, 3)
    ┌─────┬─────┬─────┐
    │ a   ┆ b   ┆ r   │
    │ --- ┆ --- ┆ --- │
    │ i64 ┆ i64 ┆ i64 │
    ╞═════╪═════╪═════╡
    │ 1   ┆ 2   ┆ 4   │
    │ 2   ┆ 5   ┆ 3   │
    │ 3   ┆ 16  ┆ 2   │
    │ 4   ┆ 3   ┆ 1   │
    └─────┴─────┴─────┘
    """

    errors.check_arg_type(str | None, "aligned", "with_", with_)

    def decorator(fn):
        signature = inspect.signature(fn)
        if with_ is not None and with_ not in signature.parameters:
            raise ValueError(f"function `{fn.__name__}` has no argument named `{with_}`")

        @wraps(fn)
        def wrapper(*args, **kwargs):
            if with_ is not None:
                bound_sig = signature.bind(*args, **kwargs)
                bound_sig.apply_defaults()
                with_obj = bound_sig.arguments[with_]
            else:
                with_obj = None

            return eval_aligned(fn(*args, **kwargs), with_=with_obj)

        return wrapper

    if fn is not None:
        return decorator(fn)

    return decorator


def eval_aligned(val: ColExpr | pl.Series | pd.Series, with_: Table | Col | None = None) -> EvalAligned:
    """
    Allows to evaluate a column expression containing columns from different tables and
    to use polars / pandas Series in column expressions.

    :param val:
        The expression or polars / pandas Series to be aligned.

    :param with_:
        The table or column to align with.

    Examples
    --------
    Usage of a polars `Series` in a column expressions (the same works for pandas
    `Series`):

    >>> import polars as pl
    >>> t = pdt.Table(
    ...     {
    ...         "a": [1, 2, 3, 4],
    ...         "b": [2, 5, 16, 3],
    ...     },
    ...     name="t",
    ... )
    >>> s = pl.Series([9, 5, 4, 1])
    >>> t >> mutate(c=eval_aligned(t.a + s)) >> show()
    Table `t` (backend: polars)
    shape: (4, 3)
    ┌─────┬─────┬─────┐
    │ a   ┆ b   ┆ c   │
    │ --- ┆ --- ┆ --- │
    │ i64 ┆ i64 ┆ i64 │
    ╞═════╪═════╪═════╡
    │ 1   ┆ 2   ┆ 10  │
    │ 2   ┆ 5   ┆ 7   │
    │ 3   ┆ 16  ┆ 7   │
    │ 4   ┆ 3   ┆ 5   │
    └─────┴─────┴─────┘

    Expression containing columns from different tables:

    >>> t1 = pdt.Table({"a": [1, 2, 3, 4]}, name="t1")
    >>> t2 = pdt.Table({"a": [5, 3, 1, 3]}, name="t2")
    >>> t1 >> mutate(c=eval_aligned(t1.a + t2.a, with_=t1)) >> show()
    Table `t1` (backend: polars)
    shape: (4, 2)
    ┌─────┬─────┐
    │ a   ┆ c   │
    │ --- ┆ --- │
    │ i64 ┆ i64 │
    ╞═════╪═════╡
    │ 1   ┆ 6   │
    │ 2   ┆ 5   │
    │ 3   ┆ 4   │
    │ 4   ┆ 7   │
    └─────┴─────┘
    """
    errors.check_arg_type(ColExpr | pl.Series | pd.Series, "eval_aligned", "val", val)
    errors.check_arg_type(Table | Col | None, "eval_aligned", "with_", with_)

    return EvalAligned(val, with_)
