# Copyright (c) QuantCo and pydiverse contributors 2025-2025
# SPDX-License-Identifier: BSD-3-Clause

# ruff: noqa: A002

from collections.abc import Iterable
from typing import Any, overload

from pydiverse.common import (
    Bool,
    Date,
    Datetime,
    Dtype,
    Duration,
    Float,
    Int,
    List,
    String,
    Time,
)
from pydiverse.transform._internal import errors
from pydiverse.transform._internal.ops import ops
from pydiverse.transform._internal.tree import types
from pydiverse.transform._internal.tree.col_expr import (
    Col,
    ColExpr,
    ColFn,
    ColName,
    LiteralCol,
    WhenClause,
    wrap_literals,
)


def when(condition: ColExpr) -> WhenClause:
    condition = wrap_literals(condition)
    if condition.dtype() is not None and not types.without_const(condition.dtype()) == Bool():
        raise errors.DataTypeError(f"argument for `when` must be of boolean type, but has type `{condition.dtype()}`")

    return WhenClause([], wrap_literals(condition))


def lit(val: Any, dtype: Dtype | type[Dtype] | None = None) -> LiteralCol:
    """
    Creates a pydiverse.transform expression from a python builtin type.

    Usually, you can just use python builtins in expressions without wrapping them in
    ``lit``. The pydiverse.transform data type of the value is then inferred. However,
    ``lit`` allows to set the exact pydiverse.transform type, which may be useful
    sometimes.
    """
    errors.check_arg_type(Dtype | type | None, "lit", "dtype", dtype)
    if dtype is not None and not isinstance(dtype, Dtype):
        if not issubclass(dtype, Dtype) or dtype is List:
            raise TypeError(
                "argument for parameter `dtype` of `lit` must be an"
                "instance or subclass of `Dtype` (and for `List`, you have to"
                "specify the inner type)"
            )
        dtype = dtype()
    if dtype is not None and types.is_subtype(dtype):
        return LiteralCol(val, dtype).cast(dtype)
    return LiteralCol(val, dtype)


# --- from here the code is generated, do not delete this comment ---


def coalesce(arg: ColExpr, *args: ColExpr) -> ColExpr:
    """
    Returns the first non-null value among the given.

    :param arg:
        The first value.

    :param args:
        Further values. All must have the same type.

    Examples
    --------
    >>> t = pdt.Table(
    ...     {
    ...         "a": [5, None, 435, -1, 8, None],
    ...         "b": [-45, None, 6, 23, 1, 0],
    ...         "c": [10, 2, None, None, None, None],
    ...     }
    ... )
    >>> (
    ...     t
    ...     >> mutate(
    ...         x=pdt.coalesce(t.a, t.b, t.c),
    ...         y=pdt.coalesce(t.c, t.b, t.a),
    ...     )
    ...     >> show()
    ... )
    Table <unnamed>, backend: PolarsImpl
    shape: (6, 5)
    ┌──────┬──────┬──────┬─────┬─────┐
    │ a    ┆ b    ┆ c    ┆ x   ┆ y   │
    │ ---  ┆ ---  ┆ ---  ┆ --- ┆ --- │
    │ i64  ┆ i64  ┆ i64  ┆ i64 ┆ i64 │
    ╞══════╪══════╪══════╪═════╪═════╡
    │ 5    ┆ -45  ┆ 10   ┆ 5   ┆ 10  │
    │ null ┆ null ┆ 2    ┆ 2   ┆ 2   │
    │ 435  ┆ 6    ┆ null ┆ 435 ┆ 6   │
    │ -1   ┆ 23   ┆ null ┆ -1  ┆ 23  │
    │ 8    ┆ 1    ┆ null ┆ 8   ┆ 1   │
    │ null ┆ 0    ┆ null ┆ 0   ┆ 0   │
    └──────┴──────┴──────┴─────┴─────┘
    """

    return ColFn(ops.coalesce, arg, *args)


def count(
    *,
    partition_by: Col | ColName | str | Iterable[Col | ColName | str] | None = None,
    filter: ColExpr[Bool] | Iterable[ColExpr[Bool]] | None = None,
) -> ColExpr[Int]:
    """
    Returns the number of rows of the current table, like :code:`COUNT(*)` in SQL.
    """

    return ColFn(ops.count_star, partition_by=partition_by, filter=filter)


def dense_rank(
    *,
    partition_by: Col | ColName | str | Iterable[Col | ColName | str] | None = None,
    arrange: ColExpr | Iterable[ColExpr],
) -> ColExpr[Int]:
    """
    The number of smaller or equal values in the column (not counting duplicates).

    This function has two syntax alternatives, as shown in the example below. The
    pdt. version is a bit more flexible, because it allows sorting by multiple
    expressions.

    Examples
    --------
    >>> t = pdt.Table({"a": [5, -1, 435, -1, 8, None, 8]})
    >>> (
    ...     t
    ...     >> mutate(
    ...         x=t.a.nulls_first().dense_rank(),
    ...         y=pdt.dense_rank(arrange=t.a.nulls_first()),
    ...     )
    ...     >> show()
    ... )
    Table <unnamed>, backend: PolarsImpl
    shape: (7, 3)
    ┌──────┬─────┬─────┐
    │ a    ┆ x   ┆ y   │
    │ ---  ┆ --- ┆ --- │
    │ i64  ┆ i64 ┆ i64 │
    ╞══════╪═════╪═════╡
    │ 5    ┆ 3   ┆ 3   │
    │ -1   ┆ 2   ┆ 2   │
    │ 435  ┆ 5   ┆ 5   │
    │ -1   ┆ 2   ┆ 2   │
    │ 8    ┆ 4   ┆ 4   │
    │ null ┆ 1   ┆ 1   │
    │ 8    ┆ 4   ┆ 4   │
    └──────┴─────┴─────┘
    """

    return ColFn(ops.dense_rank, partition_by=partition_by, arrange=arrange)


def all(arg: ColExpr[Bool], *args: ColExpr[Bool]) -> ColExpr[Bool]:
    """ """

    return ColFn(ops.horizontal_all, arg, *args)


def any(arg: ColExpr[Bool], *args: ColExpr[Bool]) -> ColExpr[Bool]:
    """ """

    return ColFn(ops.horizontal_any, arg, *args)


@overload
def max(arg: ColExpr[Int], *args: ColExpr[Int]) -> ColExpr[Int]: ...


@overload
def max(arg: ColExpr[Float], *args: ColExpr[Float]) -> ColExpr[Float]: ...


@overload
def max(arg: ColExpr[String], *args: ColExpr[String]) -> ColExpr[String]: ...


@overload
def max(arg: ColExpr[Datetime], *args: ColExpr[Datetime]) -> ColExpr[Datetime]: ...


@overload
def max(arg: ColExpr[Time], *args: ColExpr[Time]) -> ColExpr[Time]: ...


@overload
def max(arg: ColExpr[Duration], *args: ColExpr[Duration]) -> ColExpr[Duration]: ...


@overload
def max(arg: ColExpr[Date], *args: ColExpr[Date]) -> ColExpr[Date]: ...


@overload
def max(arg: ColExpr[Bool], *args: ColExpr[Bool]) -> ColExpr[Bool]: ...


def max(arg: ColExpr, *args: ColExpr) -> ColExpr:
    """
    The maximum of the given columns.

    Examples
    --------
    >>> t = pdt.Table(
    ...     {
    ...         "a": [5, None, 435, -1, 8, None],
    ...         "b": [-45, None, 6, 23, -1, 0],
    ...         "c": [10, None, 2, None, -53, 3],
    ...     }
    ... )
    >>> t >> mutate(x=pdt.max(t.a, t.b, t.c)) >> show()
    Table <unnamed>, backend: PolarsImpl
    shape: (6, 4)
    ┌──────┬──────┬──────┬──────┐
    │ a    ┆ b    ┆ c    ┆ x    │
    │ ---  ┆ ---  ┆ ---  ┆ ---  │
    │ i64  ┆ i64  ┆ i64  ┆ i64  │
    ╞══════╪══════╪══════╪══════╡
    │ 5    ┆ -45  ┆ 10   ┆ 10   │
    │ null ┆ null ┆ null ┆ null │
    │ 435  ┆ 6    ┆ 2    ┆ 435  │
    │ -1   ┆ 23   ┆ null ┆ 23   │
    │ 8    ┆ -1   ┆ -53  ┆ 8    │
    │ null ┆ 0    ┆ 3    ┆ 3    │
    └──────┴──────┴──────┴──────┘
    """

    return ColFn(ops.horizontal_max, arg, *args)


@overload
def min(arg: ColExpr[Int], *args: ColExpr[Int]) -> ColExpr[Int]: ...


@overload
def min(arg: ColExpr[Float], *args: ColExpr[Float]) -> ColExpr[Float]: ...


@overload
def min(arg: ColExpr[String], *args: ColExpr[String]) -> ColExpr[String]: ...


@overload
def min(arg: ColExpr[Datetime], *args: ColExpr[Datetime]) -> ColExpr[Datetime]: ...


@overload
def min(arg: ColExpr[Time], *args: ColExpr[Time]) -> ColExpr[Time]: ...


@overload
def min(arg: ColExpr[Duration], *args: ColExpr[Duration]) -> ColExpr[Duration]: ...


@overload
def min(arg: ColExpr[Date], *args: ColExpr[Date]) -> ColExpr[Date]: ...


@overload
def min(arg: ColExpr[Bool], *args: ColExpr[Bool]) -> ColExpr[Bool]: ...


def min(arg: ColExpr, *args: ColExpr) -> ColExpr:
    """
    The minimum of the given columns.

    Examples
    --------
    >>> t = pdt.Table(
    ...     {
    ...         "a": [5, None, 435, -1, 8, None],
    ...         "b": [-45, None, 6, 23, -1, 0],
    ...         "c": [10, None, 2, None, -53, 3],
    ...     }
    ... )
    >>> t >> mutate(x=pdt.min(t.a, t.b, t.c)) >> show()
    Table <unnamed>, backend: PolarsImpl
    shape: (6, 4)
    ┌──────┬──────┬──────┬──────┐
    │ a    ┆ b    ┆ c    ┆ x    │
    │ ---  ┆ ---  ┆ ---  ┆ ---  │
    │ i64  ┆ i64  ┆ i64  ┆ i64  │
    ╞══════╪══════╪══════╪══════╡
    │ 5    ┆ -45  ┆ 10   ┆ -45  │
    │ null ┆ null ┆ null ┆ null │
    │ 435  ┆ 6    ┆ 2    ┆ 2    │
    │ -1   ┆ 23   ┆ null ┆ -1   │
    │ 8    ┆ -1   ┆ -53  ┆ -53  │
    │ null ┆ 0    ┆ 3    ┆ 0    │
    └──────┴──────┴──────┴──────┘
    """

    return ColFn(ops.horizontal_min, arg, *args)


@overload
def sum(arg: ColExpr[Int], *args: ColExpr[Int]) -> ColExpr[Int]: ...


@overload
def sum(arg: ColExpr[Float], *args: ColExpr[Float]) -> ColExpr[Float]: ...


@overload
def sum(arg: ColExpr[String], *args: ColExpr[String]) -> ColExpr[String]: ...


@overload
def sum(arg: ColExpr[Duration], *args: ColExpr[Duration]) -> ColExpr[Duration]: ...


def sum(arg: ColExpr, *args: ColExpr) -> ColExpr:
    """ """

    return ColFn(ops.horizontal_sum, arg, *args)


def rand() -> ColExpr[Float]:
    """
    Generates a column of random floating point number between 0 and 1.
    """

    return ColFn(ops.rand)


def rank(
    *,
    partition_by: Col | ColName | str | Iterable[Col | ColName | str] | None = None,
    arrange: ColExpr | Iterable[ColExpr],
) -> ColExpr[Int]:
    """
    The number of strictly smaller elements in the column plus one.

    This is the same as ``rank("min")`` in polars. This function has two syntax
    alternatives, as shown in the example below. The pdt. version is a bit more
    flexible, because it allows sorting by multiple expressions.


    Examples
    --------
    >>> t = pdt.Table({"a": [5, -1, 435, -1, 8, None, 8]})
    >>> (
    ...     t
    ...     >> mutate(
    ...         x=t.a.nulls_first().rank(),
    ...         y=pdt.rank(arrange=t.a.nulls_first()),
    ...     )
    ...     >> show()
    ... )
    Table <unnamed>, backend: PolarsImpl
    shape: (7, 3)
    ┌──────┬─────┬─────┐
    │ a    ┆ x   ┆ y   │
    │ ---  ┆ --- ┆ --- │
    │ i64  ┆ i64 ┆ i64 │
    ╞══════╪═════╪═════╡
    │ 5    ┆ 4   ┆ 4   │
    │ -1   ┆ 2   ┆ 2   │
    │ 435  ┆ 7   ┆ 7   │
    │ -1   ┆ 2   ┆ 2   │
    │ 8    ┆ 5   ┆ 5   │
    │ null ┆ 1   ┆ 1   │
    │ 8    ┆ 5   ┆ 5   │
    └──────┴─────┴─────┘
    """

    return ColFn(ops.rank, partition_by=partition_by, arrange=arrange)


def row_number(
    *,
    partition_by: Col | ColName | str | Iterable[Col | ColName | str] | None = None,
    arrange: ColExpr | Iterable[ColExpr] | None = None,
) -> ColExpr[Int]:
    """
    Computes the index of a row.

    Via the *arrange* argument, this can be done relative to a different order of
    the rows. But note that the result may not be unique if the argument of
    *arrange* contains duplicates.

    Examples
    --------
    >>> t = pdt.Table({"a": [5, -1, 435, -34, 8, None, 0]})
    >>> (
    ...     t
    ...     >> mutate(
    ...         x=pdt.row_number(),
    ...         y=pdt.row_number(arrange=t.a),
    ...     )
    ...     >> show()
    ... )
    Table <unnamed>, backend: PolarsImpl
    shape: (7, 3)
    ┌──────┬─────┬─────┐
    │ a    ┆ x   ┆ y   │
    │ ---  ┆ --- ┆ --- │
    │ i64  ┆ i64 ┆ i64 │
    ╞══════╪═════╪═════╡
    │ 5    ┆ 1   ┆ 5   │
    │ -1   ┆ 2   ┆ 3   │
    │ 435  ┆ 3   ┆ 7   │
    │ -34  ┆ 4   ┆ 2   │
    │ 8    ┆ 5   ┆ 6   │
    │ null ┆ 6   ┆ 1   │
    │ 0    ┆ 7   ┆ 4   │
    └──────┴─────┴─────┘
    """

    return ColFn(ops.row_number, partition_by=partition_by, arrange=arrange)
