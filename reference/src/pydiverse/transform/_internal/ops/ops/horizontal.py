# Copyright (c) QuantCo and pydiverse contributors 2025-2025
# SPDX-License-Identifier: BSD-3-Clause

from pydiverse.transform._internal.ops.op import Operator
from pydiverse.transform._internal.ops.signature import Signature
from pydiverse.transform._internal.tree.types import (
    COMPARABLE,
    NUMERIC,
    Bool,
    Duration,
    S,
    String,
)


class Horizontal(Operator):
    def __init__(self, name: str, *signatures: Signature, doc: str = ""):
        super().__init__(
            name,
            *signatures,
            param_names=["arg", "args"],
            generate_expr_method=False,
            doc=doc,
        )


horizontal_max = Horizontal(
    "max",
    *(Signature(dtype, dtype, ..., return_type=dtype) for dtype in COMPARABLE),
    doc="""
The maximum of the given columns.

Examples
--------
>>> t = pdt.Table(
...     {
...         "a": [5, None, 435, -1, 8, None],
...         "b": [-45, None, 6, 23, -1, 0],
...         "c": [10, None, 2, None, -53, 3],
...     }
... )
>>> t >> mutate(x=pdt.max(t.a, t.b, t.c)) >> show()
Table <unnamed>, backend: PolarsImpl
shape: (6, 4)
┌──────┬──────┬──────┬──────┐
│ a    ┆ b    ┆ c    ┆ x    │
│ ---  ┆ ---  ┆ ---  ┆ ---  │
│ i64  ┆ i64  ┆ i64  ┆ i64  │
╞══════╪══════╪══════╪══════╡
│ 5    ┆ -45  ┆ 10   ┆ 10   │
│ null ┆ null ┆ null ┆ null │
│ 435  ┆ 6    ┆ 2    ┆ 435  │
│ -1   ┆ 23   ┆ null ┆ 23   │
│ 8    ┆ -1   ┆ -53  ┆ 8    │
│ null ┆ 0    ┆ 3    ┆ 3    │
└──────┴──────┴──────┴──────┘
""",
)

horizontal_min = Horizontal(
    "min",
    *(Signature(dtype, dtype, ..., return_type=dtype) for dtype in COMPARABLE),
    doc="""
The minimum of the given columns.

Examples
--------
>>> t = pdt.Table(
...     {
...         "a": [5, None, 435, -1, 8, None],
...         "b": [-45, None, 6, 23, -1, 0],
...         "c": [10, None, 2, None, -53, 3],
...     }
... )
>>> t >> mutate(x=pdt.min(t.a, t.b, t.c)) >> show()
Table <unnamed>, backend: PolarsImpl
shape: (6, 4)
┌──────┬──────┬──────┬──────┐
│ a    ┆ b    ┆ c    ┆ x    │
│ ---  ┆ ---  ┆ ---  ┆ ---  │
│ i64  ┆ i64  ┆ i64  ┆ i64  │
╞══════╪══════╪══════╪══════╡
│ 5    ┆ -45  ┆ 10   ┆ -45  │
│ null ┆ null ┆ null ┆ null │
│ 435  ┆ 6    ┆ 2    ┆ 2    │
│ -1   ┆ 23   ┆ null ┆ -1   │
│ 8    ┆ -1   ┆ -53  ┆ -53  │
│ null ┆ 0    ┆ 3    ┆ 0    │
└──────┴──────┴──────┴──────┘
""",
)

coalesce = Horizontal(
    "coalesce",
    Signature(S, S, ..., return_type=S),
    doc="""
Returns the first non-null value among the given.

:param arg:
    The first value.

:param args:
    Further values. All must have the same type.

Examples
--------
>>> t = pdt.Table(
...     {
...         "a": [5, None, 435, -1, 8, None],
...         "b": [-45, None, 6, 23, 1, 0],
...         "c": [10, 2, None, None, None, None],
...     }
... )
>>> (
...     t
...     >> mutate(
...         x=pdt.coalesce(t.a, t.b, t.c),
...         y=pdt.coalesce(t.c, t.b, t.a),
...     )
...     >> show()
... )
Table <unnamed>, backend: PolarsImpl
shape: (6, 5)
┌──────┬──────┬──────┬─────┬─────┐
│ a    ┆ b    ┆ c    ┆ x   ┆ y   │
│ ---  ┆ ---  ┆ ---  ┆ --- ┆ --- │
│ i64  ┆ i64  ┆ i64  ┆ i64 ┆ i64 │
╞══════╪══════╪══════╪═════╪═════╡
│ 5    ┆ -45  ┆ 10   ┆ 5   ┆ 10  │
│ null ┆ null ┆ 2    ┆ 2   ┆ 2   │
│ 435  ┆ 6    ┆ null ┆ 435 ┆ 6   │
│ -1   ┆ 23   ┆ null ┆ -1  ┆ 23  │
│ 8    ┆ 1    ┆ null ┆ 8   ┆ 1   │
│ null ┆ 0    ┆ null ┆ 0   ┆ 0   │
└──────┴──────┴──────┴─────┴─────┘
""",
)

horizontal_any = Horizontal("any", Signature(Bool(), Bool(), ..., return_type=Bool()))

horizontal_all = Horizontal("all", Signature(Bool(), Bool(), ..., return_type=Bool()))

horizontal_sum = Horizontal(
    "sum",
    *(Signature(dtype, dtype, ..., return_type=dtype) for dtype in NUMERIC),
    Signature(String(), String(), ..., return_type=String()),
    Signature(Duration(), Duration(), ..., return_type=Duration()),
)
