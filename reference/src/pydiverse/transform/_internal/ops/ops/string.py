# Copyright (c) QuantCo and pydiverse contributors 2025-2025
# SPDX-License-Identifier: BSD-3-Clause

from pydiverse.transform._internal.ops.op import Operator
from pydiverse.transform._internal.ops.signature import Signature
from pydiverse.transform._internal.tree.types import (
    Bool,
    Const,
    Date,
    Datetime,
    Int,
    String,
)


class StrUnary(Operator):
    def __init__(self, name: str, doc: str = ""):
        super().__init__(name, Signature(String(), return_type=String()), doc=doc)


str_strip = StrUnary(
    "str.strip",
    doc="""
Removes leading and trailing whitespace.

Examples
--------
>>> t = pdt.Table(
...     {
...         "a": ["  BCD ", "-- 00", " A^^u", "-O2"],
...         "b": ["12431", "transform", "12__*m", "   "],
...     },
...     name="string table",
... )
>>> t >> mutate(j=t.a.str.strip(), k=t.b.str.strip()) >> show()
Table string table, backend: PolarsImpl
shape: (4, 4)
┌────────┬───────────┬───────┬───────────┐
│ a      ┆ b         ┆ j     ┆ k         │
│ ---    ┆ ---       ┆ ---   ┆ ---       │
│ str    ┆ str       ┆ str   ┆ str       │
╞════════╪═══════════╪═══════╪═══════════╡
│   BCD  ┆ 12431     ┆ BCD   ┆ 12431     │
│ -- 00  ┆ transform ┆ -- 00 ┆ transform │
│  A^^u  ┆ 12__*m    ┆ A^^u  ┆ 12__*m    │
│ -O2    ┆           ┆ -O2   ┆           │
└────────┴───────────┴───────┴───────────┘
""",
)
str_upper = StrUnary(
    "str.upper",
    doc="""
Converts all alphabet letters to upper case.

Examples
--------
>>> t = pdt.Table(
...     {
...         "a": ["  BCD ", "-- 00", " A^^u", "-O2"],
...         "b": ["12431", "transform", "12__*m", "   "],
...     },
...     name="string table",
... )
>>> t >> mutate(j=t.a.str.upper(), k=t.b.str.upper()) >> show()
Table string table, backend: PolarsImpl
shape: (4, 4)
┌────────┬───────────┬────────┬───────────┐
│ a      ┆ b         ┆ j      ┆ k         │
│ ---    ┆ ---       ┆ ---    ┆ ---       │
│ str    ┆ str       ┆ str    ┆ str       │
╞════════╪═══════════╪════════╪═══════════╡
│   BCD  ┆ 12431     ┆   BCD  ┆ 12431     │
│ -- 00  ┆ transform ┆ -- 00  ┆ TRANSFORM │
│  A^^u  ┆ 12__*m    ┆  A^^U  ┆ 12__*M    │
│ -O2    ┆           ┆ -O2    ┆           │
└────────┴───────────┴────────┴───────────┘
""",
)
str_lower = StrUnary(
    "str.lower",
    doc="""
Converts all alphabet letters to lower case.

Examples
--------
>>> t = pdt.Table(
...     {
...         "a": ["  BCD ", "-- 00", " A^^u", "-O2"],
...         "b": ["12431", "transform", "12__*m", "   "],
...     },
...     name="string table",
... )
>>> t >> mutate(j=t.a.str.lower(), k=t.b.str.lower()) >> show()
Table string table, backend: PolarsImpl
shape: (4, 4)
┌────────┬───────────┬────────┬───────────┐
│ a      ┆ b         ┆ j      ┆ k         │
│ ---    ┆ ---       ┆ ---    ┆ ---       │
│ str    ┆ str       ┆ str    ┆ str       │
╞════════╪═══════════╪════════╪═══════════╡
│   BCD  ┆ 12431     ┆   bcd  ┆ 12431     │
│ -- 00  ┆ transform ┆ -- 00  ┆ transform │
│  A^^u  ┆ 12__*m    ┆  a^^u  ┆ 12__*m    │
│ -O2    ┆           ┆ -o2    ┆           │
└────────┴───────────┴────────┴───────────┘
""",
)

# We should write something about number of chars vs number of bytes here.
str_len = Operator(
    "str.len",
    Signature(String(), return_type=Int()),
    doc="""
Computes the length of the string.

Leading and trailing whitespace is included in the length.

Examples
--------
>>> t = pdt.Table(
...     {
...         "a": ["  BCD ", "-- 00", " A^^u", "-O2"],
...         "b": ["12431", "transform", "12__*m", "   "],
...     },
...     name="string table",
... )
>>> t >> mutate(j=t.a.str.len(), k=t.b.str.len()) >> show()
Table string table, backend: PolarsImpl
shape: (4, 4)
┌────────┬───────────┬─────┬─────┐
│ a      ┆ b         ┆ j   ┆ k   │
│ ---    ┆ ---       ┆ --- ┆ --- │
│ str    ┆ str       ┆ i64 ┆ i64 │
╞════════╪═══════════╪═════╪═════╡
│   BCD  ┆ 12431     ┆ 6   ┆ 5   │
│ -- 00  ┆ transform ┆ 5   ┆ 9   │
│  A^^u  ┆ 12__*m    ┆ 5   ┆ 6   │
│ -O2    ┆           ┆ 3   ┆ 3   │
└────────┴───────────┴─────┴─────┘
""",
)

str_replace_all = Operator(
    "str.replace_all",
    Signature(String(), Const(String()), Const(String()), return_type=String()),
    param_names=["self", "substr", "replacement"],
    doc="""
Replaces all occurrences of a given substring by a different string.

:param substr:
    The string to replace.

:param replacement:
    The replacement string.

Examples
--------
>>> t = pdt.Table(
...     {
...         "a": ["  BCD ", "-- 00", " A^^u", "-O2", ""],
...         "b": ["12431", "transform", "12__*m", "   ", "abbabbabba"],
...     },
...     name="string table",
... )
>>> (
...     t
...     >> mutate(
...         r=t.a.str.replace_all("-", "?"),
...         s=t.b.str.replace_all("ansf", "[---]"),
...         u=t.b.str.replace_all("abba", "#"),
...     )
...     >> show()
... )
Table string table, backend: PolarsImpl
shape: (5, 5)
┌────────┬────────────┬────────┬────────────┬───────────┐
│ a      ┆ b          ┆ r      ┆ s          ┆ u         │
│ ---    ┆ ---        ┆ ---    ┆ ---        ┆ ---       │
│ str    ┆ str        ┆ str    ┆ str        ┆ str       │
╞════════╪════════════╪════════╪════════════╪═══════════╡
│   BCD  ┆ 12431      ┆   BCD  ┆ 12431      ┆ 12431     │
│ -- 00  ┆ transform  ┆ ?? 00  ┆ tr[---]orm ┆ transform │
│  A^^u  ┆ 12__*m     ┆  A^^u  ┆ 12__*m     ┆ 12__*m    │
│ -O2    ┆            ┆ ?O2    ┆            ┆           │
│        ┆ abbabbabba ┆        ┆ abbabbabba ┆ #bb#      │
└────────┴────────────┴────────┴────────────┴───────────┘
""",
)

str_starts_with = Operator(
    "str.starts_with",
    Signature(String(), Const(String()), return_type=Bool()),
    param_names=["self", "prefix"],
    doc="""
Whether the string starts with a given prefix.

:param prefix:
    The prefix to check.

Examples
--------
>>> t = pdt.Table(
...     {
...         "a": ["  BCD ", "-- 00", " A^^u", "-O2", ""],
...         "b": ["12431", "transform", "12__*m", "   ", "abbabbabba"],
...     },
...     name="string table",
... )
>>> (
...     t
...     >> mutate(
...         j=t.a.str.starts_with("-"),
...         k=t.b.str.starts_with("12"),
...     )
...     >> show()
... )
Table string table, backend: PolarsImpl
shape: (5, 4)
┌────────┬────────────┬───────┬───────┐
│ a      ┆ b          ┆ j     ┆ k     │
│ ---    ┆ ---        ┆ ---   ┆ ---   │
│ str    ┆ str        ┆ bool  ┆ bool  │
╞════════╪════════════╪═══════╪═══════╡
│   BCD  ┆ 12431      ┆ false ┆ true  │
│ -- 00  ┆ transform  ┆ true  ┆ false │
│  A^^u  ┆ 12__*m     ┆ false ┆ true  │
│ -O2    ┆            ┆ true  ┆ false │
│        ┆ abbabbabba ┆ false ┆ false │
└────────┴────────────┴───────┴───────┘
""",
)

str_ends_with = Operator(
    "str.ends_with",
    Signature(String(), Const(String()), return_type=Bool()),
    param_names=["self", "suffix"],
    doc="""
Whether the string ends with a given suffix.

:param suffix:
    The suffix to check.

Examples
--------
>>> t = pdt.Table(
...     {
...         "a": ["  BCD ", "-- 00", " A^^u", "-O2", ""],
...         "b": ["12431", "transform", "12__*m", "   ", "abbabbabba"],
...     },
...     name="string table",
... )
>>> (
...     t
...     >> mutate(
...         j=t.a.str.ends_with(""),
...         k=t.b.str.ends_with("m"),
...         l=t.a.str.ends_with("^u"),
...     )
...     >> show()
... )
Table string table, backend: PolarsImpl
shape: (5, 5)
┌────────┬────────────┬──────┬───────┬───────┐
│ a      ┆ b          ┆ j    ┆ k     ┆ l     │
│ ---    ┆ ---        ┆ ---  ┆ ---   ┆ ---   │
│ str    ┆ str        ┆ bool ┆ bool  ┆ bool  │
╞════════╪════════════╪══════╪═══════╪═══════╡
│   BCD  ┆ 12431      ┆ true ┆ false ┆ false │
│ -- 00  ┆ transform  ┆ true ┆ true  ┆ false │
│  A^^u  ┆ 12__*m     ┆ true ┆ true  ┆ true  │
│ -O2    ┆            ┆ true ┆ false ┆ false │
│        ┆ abbabbabba ┆ true ┆ false ┆ false │
└────────┴────────────┴──────┴───────┴───────┘
""",
)


str_contains = Operator(
    "str.contains",
    Signature(String(), Const(String()), Const(Bool()), Const(Bool()), return_type=Bool()),
    param_names=["self", "pattern", "allow_regex", "true_if_regex_unsupported"],
    default_values=[..., ..., True, False],
    doc="""
Whether the string contains a given pattern or substring.

:param pattern:
    The pattern or substring to look for.

:param allow_regex:
    If set to `True` (the default value), `pattern` is treated as a regular
    expression. Otherwise, `pattern` is treated as a literal string.

:param true_if_regex_unsupported:
    If set to `True`, this function always returns `True` on backends that do
    not support regex.

Note
----
If the backend does not support regex, `pattern` is automatically treated as a
literal string, regardless of `allow_regex`.

Examples
--------
>>> t = pdt.Table(
...     {
...         "a": ["  BCD ", "-- 00", " A^^u", "-O2", ""],
...         "b": ["12431", "transform", "12__*m", "   ", "abbabbabba"],
...     },
...     name="string table",
... )
>>> (
...     t
...     >> mutate(
...         j=t.a.str.contains(" "),
...         k=t.b.str.contains("a"),
...         l=t.b.str.contains(""),
...     )
...     >> show()
... )
Table string table, backend: PolarsImpl
shape: (5, 5)
┌────────┬────────────┬───────┬───────┬──────┐
│ a      ┆ b          ┆ j     ┆ k     ┆ l    │
│ ---    ┆ ---        ┆ ---   ┆ ---   ┆ ---  │
│ str    ┆ str        ┆ bool  ┆ bool  ┆ bool │
╞════════╪════════════╪═══════╪═══════╪══════╡
│   BCD  ┆ 12431      ┆ true  ┆ false ┆ true │
│ -- 00  ┆ transform  ┆ true  ┆ true  ┆ true │
│  A^^u  ┆ 12__*m     ┆ true  ┆ false ┆ true │
│ -O2    ┆            ┆ false ┆ false ┆ true │
│        ┆ abbabbabba ┆ false ┆ true  ┆ true │
└────────┴────────────┴───────┴───────┴──────┘
""",
)

str_slice = Operator(
    "str.slice",
    Signature(String(), Int(), Int(), return_type=String()),
    param_names=["self", "offset", "n"],
    doc="""
Returns a substring of the input string.

:param offset:
    The 0-based index of the first character included in the result.

:param n:
    The number of characters to include. If the string is shorter than *offset*
    + *n*, the result only includes as many characters as there are.

Examples
--------
>>> t = pdt.Table(
...     {
...         "a": ["  BCD ", "-- 00", " A^^u", "-O2", ""],
...         "b": ["12431", "transform", "12__*m", "   ", "abbabbabba"],
...     },
...     name="string table",
... )
>>> (
...     t
...     >> mutate(
...         j=t.a.str.slice(0, 2),
...         k=t.b.str.slice(4, 10),
...     )
...     >> show()
... )
Table string table, backend: PolarsImpl
shape: (5, 4)
┌────────┬────────────┬─────┬────────┐
│ a      ┆ b          ┆ j   ┆ k      │
│ ---    ┆ ---        ┆ --- ┆ ---    │
│ str    ┆ str        ┆ str ┆ str    │
╞════════╪════════════╪═════╪════════╡
│   BCD  ┆ 12431      ┆     ┆ 1      │
│ -- 00  ┆ transform  ┆ --  ┆ sform  │
│  A^^u  ┆ 12__*m     ┆  A  ┆ *m     │
│ -O2    ┆            ┆ -O  ┆        │
│        ┆ abbabbabba ┆     ┆ bbabba │
└────────┴────────────┴─────┴────────┘
""",
)

str_to_datetime = Operator("str.to_datetime", Signature(String(), return_type=Datetime()))

str_to_date = Operator("str.to_date", Signature(String(), return_type=Date()))
