# Copyright (c) QuantCo and pydiverse contributors 2025-2025
# SPDX-License-Identifier: BSD-3-Clause

from pydiverse.transform._internal.ops.op import Operator
from pydiverse.transform._internal.ops.signature import Signature
from pydiverse.transform._internal.tree.types import S


class Marker(Operator):
    def __init__(self, name: str, doc: str = ""):
        super().__init__(
            name,
            Signature(S, return_type=S),
            doc=doc
            + """
Can only be used in expressions given to the `arrange` verb or as as an
`arrange` keyword argument.
""",
        )


nulls_first = Marker(
    "nulls_first",
    doc="""
Specifies that nulls are placed at the beginning of the ordering.

This does not mean that nulls are considered to be `less` than any other
element. I.e. if both `nulls_first` and `descending` are given, nulls will still
be placed at the beginning.

If neither `nulls_first` nor `nulls_last` is specified, the position of nulls is
backend-dependent.
""",
)

nulls_last = Marker(
    "nulls_last",
    doc="""
Specifies that nulls are placed at the end of the ordering.

This does not mean that nulls are considered to be `greater` than any other
element. I.e. if both `nulls_last` and `descending` are given, nulls will still
be placed at the end.

If neither `nulls_first` nor `nulls_last` is specified, the position of nulls is
backend-dependent.
""",
)

ascending = Marker(
    "ascending",
    doc="""
The default ordering.
""",
)

descending = Marker(
    "descending",
    doc="""
Reverses the default ordering.
""",
)
