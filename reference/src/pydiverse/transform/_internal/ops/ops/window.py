# Copyright (c) QuantCo and pydiverse contributors 2025-2025
# SPDX-License-Identifier: BSD-3-Clause

from typing import Any

from pydiverse.common import Int
from pydiverse.transform._internal.ops.op import ContextKwarg, Ftype, Operator
from pydiverse.transform._internal.ops.signature import Signature
from pydiverse.transform._internal.tree.types import NUMERIC, Const, S


class Window(Operator):
    def __init__(
        self,
        name: str,
        *signatures: Signature,
        param_names: list[str] | None = None,
        default_values: list[Any] | None = None,
        generate_expr_method=False,
        arrange_required=True,
        doc: str = "",
    ):
        super().__init__(
            name,
            *signatures,
            ftype=Ftype.WINDOW,
            context_kwargs=[
                ContextKwarg("partition_by", False),
                ContextKwarg("arrange", arrange_required),
            ],
            param_names=param_names,
            default_values=default_values,
            generate_expr_method=generate_expr_method,
            doc=doc,
        )


shift = Window(
    "shift",
    Signature(S, Const(Int()), Const(S), return_type=S),
    param_names=["self", "n", "fill_value"],
    default_values=[..., ..., None],
    generate_expr_method=True,
    arrange_required=False,
    doc="""
Shifts values in the column by an offset.

:param n:
    The number of places to shift by. May be negative.

:param fill_value:
    The value to write to the empty spaces created by the shift. Defaults to
    null.

Examples
--------
>>> t = pdt.Table(
...     {
...         "a": [5, -1, 435, -34, 8, None, 0],
...         "b": ["r", "True", "??", ".  .", "-1/12", "abc", "#"],
...     }
... )
>>> (
...     t
...     >> mutate(
...         x=t.a.shift(2, -40),
...         y=t.b.shift(1, arrange=t.a.nulls_last()),
...     )
...     >> show()
... )
Table <unnamed>, backend: PolarsImpl
shape: (7, 4)
┌──────┬───────┬─────┬───────┐
│ a    ┆ b     ┆ x   ┆ y     │
│ ---  ┆ ---   ┆ --- ┆ ---   │
│ i64  ┆ str   ┆ i64 ┆ str   │
╞══════╪═══════╪═════╪═══════╡
│ 5    ┆ r     ┆ -40 ┆ #     │
│ -1   ┆ True  ┆ -40 ┆ .  .  │
│ 435  ┆ ??    ┆ 5   ┆ -1/12 │
│ -34  ┆ .  .  ┆ -1  ┆ null  │
│ 8    ┆ -1/12 ┆ 435 ┆ r     │
│ null ┆ abc   ┆ -34 ┆ ??    │
│ 0    ┆ #     ┆ 8   ┆ True  │
└──────┴───────┴─────┴───────┘
""",
)

row_number = Window(
    "row_number",
    Signature(return_type=Int()),
    arrange_required=False,
    doc="""
Computes the index of a row.

Via the *arrange* argument, this can be done relative to a different order of
the rows. But note that the result may not be unique if the argument of
*arrange* contains duplicates.

Examples
--------
>>> t = pdt.Table({"a": [5, -1, 435, -34, 8, None, 0]})
>>> (
...     t
...     >> mutate(
...         x=pdt.row_number(),
...         y=pdt.row_number(arrange=t.a),
...     )
...     >> show()
... )
Table <unnamed>, backend: PolarsImpl
shape: (7, 3)
┌──────┬─────┬─────┐
│ a    ┆ x   ┆ y   │
│ ---  ┆ --- ┆ --- │
│ i64  ┆ i64 ┆ i64 │
╞══════╪═════╪═════╡
│ 5    ┆ 1   ┆ 5   │
│ -1   ┆ 2   ┆ 3   │
│ 435  ┆ 3   ┆ 7   │
│ -34  ┆ 4   ┆ 2   │
│ 8    ┆ 5   ┆ 6   │
│ null ┆ 6   ┆ 1   │
│ 0    ┆ 7   ┆ 4   │
└──────┴─────┴─────┘
""",
)

rank = Window(
    "rank",
    Signature(return_type=Int()),
    doc="""
The number of strictly smaller elements in the column plus one.

This is the same as ``rank("min")`` in polars. This function has two syntax
alternatives, as shown in the example below. The pdt. version is a bit more
flexible, because it allows sorting by multiple expressions.


Examples
--------
>>> t = pdt.Table({"a": [5, -1, 435, -1, 8, None, 8]})
>>> (
...     t
...     >> mutate(
...         x=t.a.nulls_first().rank(),
...         y=pdt.rank(arrange=t.a.nulls_first()),
...     )
...     >> show()
... )
Table <unnamed>, backend: PolarsImpl
shape: (7, 3)
┌──────┬─────┬─────┐
│ a    ┆ x   ┆ y   │
│ ---  ┆ --- ┆ --- │
│ i64  ┆ i64 ┆ i64 │
╞══════╪═════╪═════╡
│ 5    ┆ 4   ┆ 4   │
│ -1   ┆ 2   ┆ 2   │
│ 435  ┆ 7   ┆ 7   │
│ -1   ┆ 2   ┆ 2   │
│ 8    ┆ 5   ┆ 5   │
│ null ┆ 1   ┆ 1   │
│ 8    ┆ 5   ┆ 5   │
└──────┴─────┴─────┘
""",
)

dense_rank = Window(
    "dense_rank",
    Signature(return_type=Int()),
    doc="""
The number of smaller or equal values in the column (not counting duplicates).

This function has two syntax alternatives, as shown in the example below. The
pdt. version is a bit more flexible, because it allows sorting by multiple
expressions.

Examples
--------
>>> t = pdt.Table({"a": [5, -1, 435, -1, 8, None, 8]})
>>> (
...     t
...     >> mutate(
...         x=t.a.nulls_first().dense_rank(),
...         y=pdt.dense_rank(arrange=t.a.nulls_first()),
...     )
...     >> show()
... )
Table <unnamed>, backend: PolarsImpl
shape: (7, 3)
┌──────┬─────┬─────┐
│ a    ┆ x   ┆ y   │
│ ---  ┆ --- ┆ --- │
│ i64  ┆ i64 ┆ i64 │
╞══════╪═════╪═════╡
│ 5    ┆ 3   ┆ 3   │
│ -1   ┆ 2   ┆ 2   │
│ 435  ┆ 5   ┆ 5   │
│ -1   ┆ 2   ┆ 2   │
│ 8    ┆ 4   ┆ 4   │
│ null ┆ 1   ┆ 1   │
│ 8    ┆ 4   ┆ 4   │
└──────┴─────┴─────┘
""",
)


cum_sum = Window(
    "cum_sum",
    *(Signature(dtype, return_type=dtype) for dtype in NUMERIC),
    generate_expr_method=True,
    doc="""
The sum of all preceding elements and the current element.

Null values are assigned the sum of all preceding elements.
""",
)
