# Copyright (c) QuantCo and pydiverse contributors 2025-2025
# SPDX-License-Identifier: BSD-3-Clause

from pydiverse.transform._internal.ops.op import ContextKwarg, Ftype, Operator
from pydiverse.transform._internal.ops.signature import Signature
from pydiverse.transform._internal.tree.types import (
    COMPARABLE,
    NUMERIC,
    Bool,
    Const,
    Float,
    Int,
    S,
    String,
)


class Aggregation(Operator):
    def __init__(
        self,
        name: str,
        *signatures: Signature,
        context_kwargs=None,
        param_names=None,
        default_values=None,
        generate_expr_method: bool = True,
        doc: str = "",
    ):
        if context_kwargs is None:
            context_kwargs = [
                ContextKwarg("partition_by", False),
                ContextKwarg("filter", False),
            ]
        super().__init__(
            name,
            *signatures,
            ftype=Ftype.AGGREGATE,
            context_kwargs=context_kwargs,
            param_names=param_names,
            default_values=default_values,
            generate_expr_method=generate_expr_method,
            doc=doc,
        )


min = Aggregation(
    "min",
    *(Signature(dtype, return_type=dtype) for dtype in COMPARABLE),
    doc="Computes the minimum value in each group.",
)

max = Aggregation(
    "max",
    *(Signature(dtype, return_type=dtype) for dtype in COMPARABLE),
    doc="Computes the maximum value in each group.",
)

mean = Aggregation(
    "mean",
    Signature(Float(), return_type=Float()),
    Signature(Int(), return_type=Float()),
    doc="Computes the average value in each group.",
)

sum = Aggregation(
    "sum",
    *(Signature(dtype, return_type=dtype) for dtype in NUMERIC),
    Signature(Bool(), return_type=Int()),
    doc="Computes the sum of values in each group.",
)

any = Aggregation(
    "any",
    Signature(Bool(), return_type=Bool()),
    doc="Indicates whether at least one value in a group is True.",
)

all = Aggregation(
    "all",
    Signature(Bool(), return_type=Bool()),
    doc="Indicates whether every non-null value in a group is True.",
)

count = Aggregation(
    "count",
    Signature(S, return_type=Int()),
    doc="""
Counts the number of non-null elements in the column.
""",
)

count_star = Aggregation(
    "count",
    Signature(return_type=Int()),
    generate_expr_method=False,
    doc="""
Returns the number of rows of the current table, like :code:`COUNT(*)` in SQL.
""",
)

str_join = Aggregation(
    "str.join",
    Signature(String(), Const(String()), return_type=String()),
    param_names=["self", "delimiter"],
    default_values=[..., ""],
    context_kwargs=[
        ContextKwarg("partition_by"),
        ContextKwarg("filter"),
        ContextKwarg("arrange"),
    ],
    doc="""
Concatenates all strings in a group to a single string.

:param delimiter:
    The string to insert between the elements.""",
)
