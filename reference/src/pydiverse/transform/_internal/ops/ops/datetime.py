# Copyright (c) QuantCo and pydiverse contributors 2025-2025
# SPDX-License-Identifier: BSD-3-Clause

from pydiverse.transform._internal.ops.op import Operator
from pydiverse.transform._internal.ops.signature import Signature
from pydiverse.transform._internal.tree.types import Date, Datetime, Duration, Int


class DatetimeExtract(Operator):
    def __init__(self, name: str, doc: str | None = None):
        super().__init__(
            name,
            Signature(Datetime(), return_type=Int()),
            doc=doc if doc is not None else f"Extracts the {name[3:]} component.",
        )


class DateExtract(Operator):
    def __init__(self, name: str, doc: str | None = None):
        super().__init__(
            name,
            Signature(Date(), return_type=Int()),
            Signature(Datetime(), return_type=Int()),
            doc=doc if doc is not None else f"Extracts the {name[3:]} component.",
        )


dt_year = DateExtract("dt.year", doc="The year component of the date or datetime.")

dt_month = DateExtract("dt.month", doc="The month component of the date or datetime.")

dt_day = DateExtract("dt.day", doc="The day component of the date or datetime.")

dt_hour = DatetimeExtract("dt.hour", doc="The hour component of the datetime.")

dt_minute = DatetimeExtract("dt.minute", doc="The minute component of the datetime.")

dt_second = DatetimeExtract("dt.second", doc="The second component of the datetime.")

dt_millisecond = DatetimeExtract(
    "dt.millisecond",
    doc="""
The microsecond component of the datetime int-divided by 1000 (see polars).
""",
)

dt_microsecond = DatetimeExtract("dt.microsecond", doc="The microsecond component of the datetime.")

dt_day_of_week = DateExtract(
    "dt.day_of_week",
    doc="""
The number of the current weekday.

This is one-based, so Monday is 1 and Sunday is 7.
""",
)

dt_day_of_year = DateExtract(
    "dt.day_of_year",
    doc="""
The number of days since the beginning of the year.

This is one-based, so it returns 1 for the 1st of January.
""",
)


class DurationToUnit(Operator):
    def __init__(self, name: str, doc: str = ""):
        super().__init__(name, Signature(Duration(), return_type=Int()), doc=doc)


dur_days = DurationToUnit("dur.days")

dur_hours = DurationToUnit("dur.hours")

dur_minutes = DurationToUnit("dur.minutes")

dur_seconds = DurationToUnit("dur.seconds")

dur_milliseconds = DurationToUnit("dur.milliseconds")

dur_microseconds = DurationToUnit("dur.microseconds")
