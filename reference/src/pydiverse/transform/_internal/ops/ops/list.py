# Copyright (c) QuantCo and pydiverse contributors 2025-2025
# SPDX-License-Identifier: BSD-3-Clause

from pydiverse.transform._internal.ops.op import ContextKwarg
from pydiverse.transform._internal.ops.ops.aggregation import Aggregation
from pydiverse.transform._internal.ops.signature import Signature
from pydiverse.transform._internal.tree.types import List, S

list_agg = Aggregation(
    "list.agg",
    Signature(S, return_type=List(S)),
    context_kwargs=[
        ContextKwarg("partition_by"),
        ContextKwarg("arrange"),
        ContextKwarg("filter"),
    ],
    doc="""
Collect the elements of each group in a list.
""",
)
