# Copyright (c) QuantCo and pydiverse contributors 2025-2025
# SPDX-License-Identifier: BSD-3-Clause

from pydiverse.transform._internal.ops.op import Operator
from pydiverse.transform._internal.ops.signature import Signature
from pydiverse.transform._internal.tree.types import (
    NUMERIC,
    Bool,
    Const,
    Float,
    Int,
)

pow = Operator(
    "__pow__",
    Signature(Int(), Int(), return_type=Float()),
    Signature(Float(), Float(), return_type=Float()),
    doc="""
Computes the power x ** y.

Note
----
Polars throws on negative exponents in the integer case. A polars error like
`failed to convert X to u32` may be due to negative inputs to this function.
""",
)


neg = Operator(
    "__neg__",
    *(Signature(t, return_type=t) for t in NUMERIC),
    doc="The unary - (negation) operator (__neg__)",
)

pos = Operator(
    "__pos__",
    *(Signature(t, return_type=t) for t in NUMERIC),
    doc="The unary + operator (__pos__)",
)

abs = Operator(
    "abs",
    *(Signature(t, return_type=t) for t in NUMERIC),
    doc="Computes the absolute value.",
)

round = Operator(
    "round",
    *(Signature(t, Const(Int()), return_type=t) for t in NUMERIC),
    param_names=["self", "decimals"],
    default_values=[..., 0],
    doc="""
Rounds to a given number of decimals.

:param decimals:
    The number of decimals to round by.
""",
)

floor = Operator(
    "floor",
    Signature(Float(), return_type=Float()),
    doc="Returns the largest integer less than or equal to the input.",
)

ceil = Operator(
    "ceil",
    Signature(Float(), return_type=Float()),
    doc="Returns the smallest integer greater than or equal to the input.",
)

log = Operator(
    "log",
    Signature(Float(), return_type=Float()),
    doc="Computes the natural logarithm.",
)

exp = Operator(
    "exp",
    Signature(Float(), return_type=Float()),
    doc="Computes the exponential function.",
)

log10 = Operator(
    "log10",
    Signature(Float(), return_type=Float()),
    doc="Computes the base-10 logarithm.",
)

sin = Operator("sin", Signature(Float(), return_type=Float()), doc="Computes the sine.")

cos = Operator("cos", Signature(Float(), return_type=Float()), doc="Computes the cosine.")

tan = Operator("tan", Signature(Float(), return_type=Float()), doc="Computes the tangent.")

asin = Operator(
    "asin",
    Signature(Float(), return_type=Float()),
    doc="Computes the inverse sine.",
)

acos = Operator(
    "acos",
    Signature(Float(), return_type=Float()),
    doc="Computes the inverse cosine.",
)

atan = Operator(
    "atan",
    Signature(Float(), return_type=Float()),
    doc="Computes the inverse tangent.",
)


sqrt = Operator("sqrt", Signature(Float(), return_type=Float()), doc="Computes the square root.")

cbrt = Operator("cbrt", Signature(Float(), return_type=Float()), doc="Computes the cube root.")


is_inf = Operator(
    "is_inf",
    Signature(Float(), return_type=Bool()),
    doc="""
Whether the number is infinite.

Note
----
This is currently only useful for backends supporting IEEE 754-floats. On
other backends it always returns False.
""",
)

is_not_inf = Operator("is_not_inf", Signature(Float(), return_type=Bool()))

is_nan = Operator("is_nan", Signature(Float(), return_type=Bool()))

is_not_nan = Operator("is_not_nan", Signature(Float(), return_type=Bool()))

rand = Operator(
    "rand",
    Signature(return_type=Float()),
    generate_expr_method=False,
    doc="Generates a column of random floating point number between 0 and 1.",
)
