# Copyright (c) QuantCo and pydiverse contributors 2025-2025
# SPDX-License-Identifier: BSD-3-Clause

from pydiverse.transform._internal.ops.op import Operator
from pydiverse.transform._internal.ops.signature import Signature
from pydiverse.transform._internal.tree.types import COMPARABLE, Bool, Const, S

equal = Operator("__eq__", Signature(S, S, return_type=Bool()), doc="Equality comparison ==")

not_equal = Operator("__ne__", Signature(S, S, return_type=Bool()), doc="Non-equality comparison !=")


less_than = Operator(
    "__lt__",
    *(Signature(t, t, return_type=Bool()) for t in COMPARABLE),
    doc="Less than comparison <",
)

less_equal = Operator(
    "__le__",
    *(Signature(t, t, return_type=Bool()) for t in COMPARABLE),
    doc="Less than or equal to comparison <=",
)

greater_than = Operator(
    "__gt__",
    *(Signature(t, t, return_type=Bool()) for t in COMPARABLE),
    doc="Greater than comparison >",
)

greater_equal = Operator(
    "__ge__",
    *(Signature(t, t, return_type=Bool()) for t in COMPARABLE),
    doc="Greater than or equal to comparison >=",
)

is_null = Operator(
    "is_null",
    Signature(S, return_type=Bool()),
    doc="Indicates whether the value is null.",
)

is_not_null = Operator(
    "is_not_null",
    Signature(S, return_type=Bool()),
    doc="Indicates whether the value is not null.",
)

fill_null = Operator(
    "fill_null",
    Signature(S, S, return_type=S),
    doc="Replaces every null by the given value.",
)

is_in = Operator(
    "is_in",
    Signature(S, S, ..., return_type=Bool()),
    doc="""
Whether the value equals one of the given.

Note
----
The expression ``t.c.is_in(a1, a2, ...)`` is equivalent to
``(t.c == a1) | (t.c == a2) | ...``, so passing null to ``is_in`` will result in
null. To compare for equality with null, use
:doc:`pydiverse.transform.ColExpr.is_null`.
""",
)

clip = Operator(
    "clip",
    *(Signature(t, Const(t), Const(t), return_type=t) for t in COMPARABLE),
    param_names=["self", "lower_bound", "upper_bound"],
    doc="""
Replaces values outside `[lower_bound, upper_bound]` with the closer boundary
value. If the input is not null, this is equivalent to `pdt.max(pdt.min(self,
upper_bound), lower_bound)`.
""",
)
