# Copyright (c) QuantCo and pydiverse contributors 2025-2025
# SPDX-License-Identifier: BSD-3-Clause

from .aggregation import *
from .arithmetic import *
from .comparison import *
from .datetime import *
from .horizontal import *
from .list import *
from .logical import *
from .markers import *
from .numeric import *
from .string import *
from .window import *
