# Copyright (c) QuantCo and pydiverse contributors 2025-2025
# SPDX-License-Identifier: BSD-3-Clause

from pydiverse.transform._internal.ops.op import Operator
from pydiverse.transform._internal.ops.signature import Signature
from pydiverse.transform._internal.tree.types import (
    NUMERIC,
    Bool,
    Date,
    Datetime,
    Duration,
    Float,
    Int,
    String,
)

add = Operator(
    "__add__",
    *(Signature(dtype, dtype, return_type=dtype) for dtype in NUMERIC),
    Signature(String(), String(), return_type=String()),
    Signature(Bool(), Bool(), return_type=Int()),
    Signature(Duration(), Duration(), return_type=Duration()),
    Signature(Datetime(), Duration(), return_type=Datetime()),
    Signature(Duration(), Datetime(), return_type=Datetime()),
    doc="Addition +",
)

sub = Operator(
    "__sub__",
    *(Signature(dtype, dtype, return_type=dtype) for dtype in NUMERIC),
    Signature(Datetime(), Datetime(), return_type=Duration()),
    Signature(Date(), Date(), return_type=Duration()),
    doc="Subtraction -",
)

mul = Operator(
    "__mul__",
    *(Signature(dtype, dtype, return_type=dtype) for dtype in NUMERIC),
    doc="Multiplication *",
)

truediv = Operator(
    "__truediv__",
    Signature(Int(), Int(), return_type=Float()),
    Signature(Float(), Float(), return_type=Float()),
    doc="True division /",
)

floordiv = Operator(
    "__floordiv__",
    Signature(Int(), Int(), return_type=Int()),
    doc="""
Integer division //

Warning
-------
The behavior of this operator differs from polars and python. Polars and python
always round towards negative infinity, whereas pydiverse.transform always
rounds towards zero, regardless of the sign. This behavior matches the one of C,
C++ and all currently supported SQL backends.

See also
--------
__mod__

Examples
--------
>>> t = pdt.Table(
...     {
...         "a": [65, -65, 65, -65],
...         "b": [7, 7, -7, -7],
...     }
... )
>>> t >> mutate(r=t.a // t.b) >> show()
shape: (4, 3)
┌─────┬─────┬─────┐
│ a   ┆ b   ┆ r   │
│ --- ┆ --- ┆ --- │
│ i64 ┆ i64 ┆ i64 │
╞═════╪═════╪═════╡
│ 65  ┆ 7   ┆ 9   │
│ -65 ┆ 7   ┆ -9  │
│ 65  ┆ -7  ┆ -9  │
│ -65 ┆ -7  ┆ 9   │
└─────┴─────┴─────┘
""",
)

mod = Operator(
    "__mod__",
    Signature(Int(), Int(), return_type=Int()),
    doc="""
The remainder of integer division %

Warning
-------
This operator behaves differently than in polars. There are at least two
conventions how `%` and :doc:`// <pydiverse.transform.ColExpr.__floordiv__>`
should behave  for negative inputs. We follow the one that C, C++ and all
currently supported SQL backends follow. This means that the output has the same
sign as the left hand side of the input, regardless of the right hand side.

See also
--------
__floordiv__

Examples
--------
>>> t = pdt.Table(
...     {
...         "a": [65, -65, 65, -65],
...         "b": [7, 7, -7, -7],
...     }
... )
>>> t >> mutate(r=t.a % t.b) >> show()
shape: (4, 3)
┌─────┬─────┬─────┐
│ a   ┆ b   ┆ r   │
│ --- ┆ --- ┆ --- │
│ i64 ┆ i64 ┆ i64 │
╞═════╪═════╪═════╡
│ 65  ┆ 7   ┆ 2   │
│ -65 ┆ 7   ┆ -2  │
│ 65  ┆ -7  ┆ 2   │
│ -65 ┆ -7  ┆ -2  │
└─────┴─────┴─────┘
""",
)
