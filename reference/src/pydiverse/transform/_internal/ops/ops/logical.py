# Copyright (c) QuantCo and pydiverse contributors 2025-2025
# SPDX-License-Identifier: BSD-3-Clause

from pydiverse.transform._internal.ops.op import Operator
from pydiverse.transform._internal.ops.signature import Signature
from pydiverse.transform._internal.tree.types import Bool

bool_and = Operator(
    "__and__",
    Signature(Bool(), Bool(), return_type=Bool()),
    doc="""
Boolean AND (__and__)

Examples
--------
>>> t = pdt.Table(
...     {
...         "a": [True, True, True, False, False, None],
...         "b": [True, False, None, False, None, None],
...     },
...     name="bool table",
... )
>>> t >> mutate(x=t.a & t.b) >> show()
Table bool table, backend: PolarsImpl
shape: (6, 3)
┌───────┬───────┬───────┐
│ a     ┆ b     ┆ x     │
│ ---   ┆ ---   ┆ ---   │
│ bool  ┆ bool  ┆ bool  │
╞═══════╪═══════╪═══════╡
│ true  ┆ true  ┆ true  │
│ true  ┆ false ┆ false │
│ true  ┆ null  ┆ null  │
│ false ┆ false ┆ false │
│ false ┆ null  ┆ false │
│ null  ┆ null  ┆ null  │
└───────┴───────┴───────┘
""",
)

bool_or = Operator(
    "__or__",
    Signature(Bool(), Bool(), return_type=Bool()),
    doc="""
Boolean OR (__or__)

Examples
--------
>>> t = pdt.Table(
...     {
...         "a": [True, True, True, False, False, None],
...         "b": [True, False, None, False, None, None],
...     },
...     name="bool table",
... )
>>> t >> mutate(x=t.a | t.b) >> show()
Table bool table, backend: PolarsImpl
shape: (6, 3)
┌───────┬───────┬───────┐
│ a     ┆ b     ┆ x     │
│ ---   ┆ ---   ┆ ---   │
│ bool  ┆ bool  ┆ bool  │
╞═══════╪═══════╪═══════╡
│ true  ┆ true  ┆ true  │
│ true  ┆ false ┆ true  │
│ true  ┆ null  ┆ true  │
│ false ┆ false ┆ false │
│ false ┆ null  ┆ null  │
│ null  ┆ null  ┆ null  │
└───────┴───────┴───────┘
""",
)

bool_xor = Operator(
    "__xor__",
    Signature(Bool(), Bool(), return_type=Bool()),
    doc="""
Boolean XOR (__xor__)

Examples
--------
>>> t = pdt.Table(
...     {
...         "a": [True, True, True, False, False, None],
...         "b": [True, False, None, False, None, None],
...     },
...     name="bool table",
... )
>>> t >> mutate(x=t.a ^ t.b) >> show()
Table bool table, backend: PolarsImpl
shape: (6, 3)
┌───────┬───────┬───────┐
│ a     ┆ b     ┆ x     │
│ ---   ┆ ---   ┆ ---   │
│ bool  ┆ bool  ┆ bool  │
╞═══════╪═══════╪═══════╡
│ true  ┆ true  ┆ false │
│ true  ┆ false ┆ true  │
│ true  ┆ null  ┆ null  │
│ false ┆ false ┆ false │
│ false ┆ null  ┆ null  │
│ null  ┆ null  ┆ null  │
└───────┴───────┴───────┘
""",
)

bool_invert = Operator(
    "__invert__",
    Signature(Bool(), return_type=Bool()),
    doc="""
Boolean inversion (__invert__)

Examples
--------
>>> t = pdt.Table(
...     {
...         "a": [True, True, True, False, False, None],
...         "b": [True, False, None, False, None, None],
...     },
...     name="bool table",
... )
>>> t >> mutate(x=~t.a) >> show()
Table bool table, backend: PolarsImpl
shape: (6, 3)
┌───────┬───────┬───────┐
│ a     ┆ b     ┆ x     │
│ ---   ┆ ---   ┆ ---   │
│ bool  ┆ bool  ┆ bool  │
╞═══════╪═══════╪═══════╡
│ true  ┆ true  ┆ false │
│ true  ┆ false ┆ false │
│ true  ┆ null  ┆ false │
│ false ┆ false ┆ true  │
│ false ┆ null  ┆ true  │
│ null  ┆ null  ┆ null  │
└───────┴───────┴───────┘
""",
)
