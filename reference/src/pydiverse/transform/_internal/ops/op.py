# Copyright (c) QuantCo and pydiverse contributors 2025-2025
# SPDX-License-Identifier: BSD-3-Clause

import dataclasses
import enum
from collections.abc import Sequence
from typing import Any

from pydiverse.transform._internal.ops.signature import Signature, SignatureTrie
from pydiverse.transform._internal.tree.types import Dtype


class Ftype(enum.IntEnum):
    ELEMENT_WISE = 1
    AGGREGATE = 2
    WINDOW = 3


@dataclasses.dataclass(slots=True)
class ContextKwarg:
    name: str
    required: bool = False


class Operator:
    __slots__ = (
        "name",
        "trie",
        "signatures",
        "ftype",
        "context_kwargs",
        "param_names",
        "default_values",
        "generate_expr_method",
        "doc",
    )

    name: str
    trie: SignatureTrie
    signatures: list[Signature]
    ftype: Ftype
    context_kwargs: list[ContextKwarg]
    param_names: list[str]
    default_values: list[str] | None
    generate_expr_method: bool
    doc: str

    def __init__(
        self,
        name: str,
        *signatures: Signature,
        ftype: Ftype = Ftype.ELEMENT_WISE,
        context_kwargs: list[ContextKwarg] | None = None,
        param_names: list[str] | None = None,
        default_values: list[Any] | None = None,
        generate_expr_method: bool = True,
        doc: str = "",
    ):
        assert isinstance(name, str)
        assert all(isinstance(sig, Signature) for sig in signatures)
        assert isinstance(ftype, Ftype)
        assert isinstance(doc, str)
        assert isinstance(generate_expr_method, bool)
        if isinstance(param_names, list):
            assert all(isinstance(param, str) for param in param_names)
        else:
            assert param_names is None
        if isinstance(context_kwargs, list):
            assert all(isinstance(kwarg, ContextKwarg) for kwarg in context_kwargs)
        else:
            assert context_kwargs is None
        assert isinstance(default_values, list | type(None))

        self.name = name
        self.ftype = ftype
        self.context_kwargs = context_kwargs if context_kwargs is not None else []
        self.generate_expr_method = generate_expr_method

        self.signatures = signatures
        self.trie = SignatureTrie()
        assert len(signatures) > 0
        for sig in signatures:
            self.trie.insert(sig.types, sig.return_type, sig.is_vararg)

        if param_names is None:
            num_params = len(signatures[0].types)
            assert all(len(sig.types) == num_params for sig in signatures)
            assert num_params <= 2
            if num_params == 1:
                param_names = ["self"]
            elif num_params == 2:
                param_names = ["self", "rhs"]
            else:
                param_names = []

        self.param_names = param_names
        self.default_values = default_values
        self.doc = doc

    def __repr__(self) -> str:
        return f"Operator `{self.name}`"

    # The return type of the operator given certain input types, or `None` if the
    # input signature is invalid.
    def return_type(self, signature: Sequence[Dtype]) -> Dtype | None:
        match = self.trie.best_match(signature)
        if match is None:
            return None
        return match[1]
