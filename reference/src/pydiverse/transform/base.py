# Copyright (c) QuantCo and pydiverse contributors 2025-2025
# SPDX-License-Identifier: BSD-3-Clause

from ._internal.pipe.c import C
from ._internal.pipe.verbs import alias, build_query, collect, export, show, show_query

__all__ = [
    "C",
    "alias",
    "build_query",
    "collect",
    "export",
    "show",
    "show_query",
]
