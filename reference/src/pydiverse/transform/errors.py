# Copyright (c) QuantCo and pydiverse contributors 2025-2025
# SPDX-License-Identifier: BSD-3-Clause

from ._internal.errors import (
    ColumnNotFoundError,
    DataTypeError,
    FunctionTypeError,
    NotSupportedError,
    SubqueryError,
)

__all__ = [
    "SubqueryError",
    "DataTypeError",
    "FunctionTypeError",
    "NotSupportedError",
    "ColumnNotFoundError",
]
