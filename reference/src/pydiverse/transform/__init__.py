# Copyright (c) QuantCo and pydiverse contributors 2025-2025
# SPDX-License-Identifier: BSD-3-Clause

from ._internal.pipe.pipeable import verb
from ._internal.pipe.table import Table, backend, is_sql_backed
from ._internal.tree.col_expr import Col, ColExpr
from .errors import *
from .errors import __all__ as __errors
from .extended import *
from .extended import __all__ as __extended
from .types import *
from .types import __all__ as __types
from .version import __version__

__all__ = (
    ["__version__", "Table", "ColExpr", "Col", "verb", "backend", "is_sql_backed"] + __extended + __types + __errors
)
