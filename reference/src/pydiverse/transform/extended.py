# Copyright (c) QuantCo and pydiverse contributors 2025-2025
# SPDX-License-Identifier: BSD-3-Clause

# ruff: noqa: A004

from ._internal.pipe.functions import (
    all,
    any,
    coalesce,
    count,
    dense_rank,
    lit,
    max,
    min,
    rand,
    rank,
    row_number,
    sum,
    when,
)
from ._internal.pipe.verbs import filter
from .common import *  # noqa: F403
from .common import __all__ as __common

__all__ = __common + [
    "any",
    "all",
    "count",
    "sum",
    "filter",
    "coalesce",
    "dense_rank",
    "max",
    "rand",
    "min",
    "rank",
    "row_number",
    "when",
    "lit",
]
