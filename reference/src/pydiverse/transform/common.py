# Copyright (c) QuantCo and pydiverse contributors 2025-2025
# SPDX-License-Identifier: BSD-3-Clause

from ._internal.backend.targets import (
    Dict,
    DictOfLists,
    DuckDb,
    ListOfDicts,
    Pandas,
    Polars,
    Scalar,
    SqlAlchemy,
)
from ._internal.pipe.aligned import aligned, eval_aligned
from ._internal.pipe.cache import transfer_col_references
from ._internal.pipe.pipeable import verb
from ._internal.pipe.verbs import (
    arrange,
    ast_repr,
    columns,
    cross_join,
    drop,
    full_join,
    group_by,
    inner_join,
    join,
    left_join,
    mutate,
    name,
    rename,
    select,
    slice_head,
    summarize,
    ungroup,
    union,
)
from .base import *  # noqa: F403
from .base import __all__ as __base

__all__ = __base + [
    "verb",
    "aligned",
    "eval_aligned",
    "arrange",
    "ast_repr",
    "columns",
    "drop",
    "group_by",
    "name",
    "join",
    "inner_join",
    "left_join",
    "full_join",
    "cross_join",
    "union",
    "mutate",
    "rename",
    "select",
    "slice_head",
    "summarize",
    "ungroup",
    "DuckDb",
    "SqlAlchemy",
    "Polars",
    "Pandas",
    "Scalar",
    "Dict",
    "DictOfLists",
    "ListOfDicts",
    "transfer_col_references",
]
